(* The checkfile functions of b3sum/src/main.rs, TRANSLATED statement by statement (gen/GenB3sumFns.v, produced by
   tools/gen_coq_b3sumfns.py from the current source text), are equal to the hand-written model Model/B3sum.v in the
   configuration `fixed_cfg` (both repairs present), for all inputs and result by result.

   anyhow errors of the translated text are the message strings of the source; `err_msg` gives the message of each
   error class of the model.  `cfg_windows` is instantiated with false (Unix), `ext_to_string_lossy` with utf8_lossy.
   A Rust string is at most isize::MAX bytes long; the theorems that involve byte-offset arithmetic (`i + 1`, `i + 2`
   in `unescape`) assume `str_len s < 2^64`. *)
From Coq Require Import String Ascii.
From V Require Import Base.Res Base.MachInt Base.Str Spec.Tree Model.B3sum gen.GenConsts gen.GenB3sumFns Proofs.ListP Proofs.B3sumP.
Import ListNotations.
Open Scope N_scope.

(* ------------------------------------------------------------------------- *)
(* messages                                                                  *)
(* ------------------------------------------------------------------------- *)
Definition sc (s : String.string) : list N :=
  map (fun a => N.of_nat (Ascii.nat_of_ascii a)) (String.list_ascii_of_string s).

Definition err_msg (e : b3err) : list N :=
  match e with
  | EEmptyLine => sc "Empty line"%string
  | EFormat => sc "Invalid check line format"%string
  | EHashLength => sc "Invalid hash length"%string
  | EHex => sc "Invalid hex"%string
  | EEscape => sc "Invalid backslash escape"%string
  | EEmptyPath => sc "empty file path"%string
  | ENul => sc "Null character in path"%string
  | EReplacement => sc "Unicode replacement character in path"%string
  end.

Lemma err_msg_injective : forall a b, err_msg a = err_msg b -> a = b.
Proof. intros a b; destruct a, b; vm_compute; intros H; try reflexivity; discriminate H. Qed.

Definition USIZE_LIMIT : N := 18446744073709551616.

(* ------------------------------------------------------------------------- *)
(* Base/Str.v operations = the operations of the model                       *)
(* ------------------------------------------------------------------------- *)
Lemma s_len_eq s : s_len s = str_len s.
Proof. induction s as [|c t IH]; [reflexivity|]. cbn [s_len str_len]. try reflexivity. all: rewrite IH; reflexivity. Qed.

Lemma s_replace_char_eq c r s : s_replace_char c r s = replace_char c r s.
Proof. induction s as [|x t IH]; [reflexivity|]. cbn [s_replace_char replace_char]. try reflexivity. all: rewrite IH; reflexivity. Qed.

Lemma s_strip_prefix_eq pat : forall s, s_strip_prefix pat s = strip_prefix pat s.
Proof. induction pat as [|p pt IH]; intros [|c t]; cbn [s_strip_prefix strip_prefix]; try reflexivity. all: rewrite IH; reflexivity. Qed.

Lemma s_split_once_eq pat s : s_split_once pat s = split_once pat s.
Proof.
  induction s as [|c t IH].
  - cbn [s_split_once split_once]. rewrite s_strip_prefix_eq. reflexivity.
  - cbn [s_split_once split_once]. rewrite s_strip_prefix_eq, IH. reflexivity.
Qed.

Lemma s_rsplit_once_eq pat s : s_rsplit_once pat s = rsplit_once pat s.
Proof. induction s as [|c t IH]; [reflexivity|]. cbn [s_rsplit_once rsplit_once]. rewrite s_strip_prefix_eq, IH. reflexivity. Qed.

Lemma s_trim_eq s : s_trim_end_matches [13; 10] s = trim_end s.
Proof.
  induction s as [|c t IH]; [reflexivity|]. cbn [s_trim_end_matches trim_end]. rewrite IH.
  unfold is_crlf, CR, LF. cbn [existsb]. rewrite orb_false_r, (N.eqb_sym c 13), (N.eqb_sym c 10). reflexivity.
Qed.

Lemma existsb_ext_N (f g : N -> bool) s : (forall x, f x = g x) -> existsb f s = existsb g s.
Proof. intros H. induction s as [|c t IH]; [reflexivity|]. cbn [existsb]. rewrite H, IH. reflexivity. Qed.

Lemma s_contains_guard_eq s : s_contains_any [92; 10; 13] s = existsb needs_escape s.
Proof.
  unfold s_contains_any. apply existsb_ext_N. intros x.
  unfold needs_escape, BSL, LF, CR. cbn [existsb]. rewrite orb_false_r, orb_assoc. reflexivity.
Qed.

(* ------------------------------------------------------------------------- *)
(* byte-offset slices                                                        *)
(* ------------------------------------------------------------------------- *)
Lemma s_utf8_len_pos c : 1 <= s_utf8_len c.
Proof. exact (utf8_len_pos c). Qed.

Lemma s_from_0 s : s_from_opt s 0 = Some s.
Proof. destruct s; reflexivity. Qed.

Lemma s_from_app pre r k : s_from_opt (pre ++ r) (s_len pre + k) = s_from_opt r k.
Proof.
  induction pre as [|c t IH]; cbn [app s_len s_from_opt]; [rewrite N.add_0_l; reflexivity|].
  pose proof (s_utf8_len_pos c) as P.
  replace (s_utf8_len c + s_len t + k =? 0) with false by lia.
  replace (s_utf8_len c + s_len t + k <? s_utf8_len c) with false by lia.
  replace (s_utf8_len c + s_len t + k - s_utf8_len c) with (s_len t + k) by lia. exact IH.
Qed.

Lemma s_to_app pre r : s_to_opt (pre ++ r) (s_len pre) = Some pre.
Proof.
  induction pre as [|c t IH]; cbn [app s_len s_to_opt]; [destruct r; reflexivity|].
  pose proof (s_utf8_len_pos c) as P.
  replace (s_utf8_len c + s_len t =? 0) with false by lia.
  replace (s_utf8_len c + s_len t <? s_utf8_len c) with false by lia.
  replace (s_utf8_len c + s_len t - s_utf8_len c) with (s_len t) by lia. rewrite IH. reflexivity.
Qed.

Lemma s_len_app a b : s_len (a ++ b) = s_len a + s_len b.
Proof. rewrite !s_len_eq. apply str_len_app. Qed.

(* ------------------------------------------------------------------------- *)
(* hex_half_byte                                                             *)
(* ------------------------------------------------------------------------- *)
Lemma char_as_u8_small c : c < 256 -> s_char_as_u8 c = c.
Proof. intros H. unfold s_char_as_u8. rewrite N.land_ones. apply N.mod_small. exact H. Qed.

Theorem gen_hex_half_byte_spec : forall c,
  gen_hex_half_byte c = Ok (match hex_half_byte c with Some v => inr v | None => inl (err_msg EHex) end).
Proof.
  intros c. unfold gen_hex_half_byte, hex_half_byte.
  destruct ((48 <=? c) && (c <=? 57)) eqn:D.
  - apply andb_true_iff in D as [D1 D2]. apply N.leb_le in D1, D2.
    rewrite (char_as_u8_small c) by lia. rewrite (char_as_u8_small 48) by lia.
    unfold mi_sub. replace (48 <=? c) with true by lia. reflexivity.
  - destruct ((97 <=? c) && (c <=? 102)) eqn:D'.
    + apply andb_true_iff in D' as [D1 D2]. apply N.leb_le in D1, D2.
      rewrite (char_as_u8_small c) by lia. rewrite (char_as_u8_small 97) by lia.
      unfold mi_sub. replace (97 <=? c) with true by lia. cbn [clift cbind].
      unfold mi_add, fits. replace (c - 97 + 10 <? 2 ^ 8) with true by (change (2 ^ 8) with 256; lia). reflexivity.
    + reflexivity.
Qed.

(* ------------------------------------------------------------------------- *)
(* filepath_to_string, check_for_invalid_characters                          *)
(* ------------------------------------------------------------------------- *)
Theorem gen_filepath_to_string_spec : forall path_bytes,
  gen_filepath_to_string utf8_lossy false path_bytes = Ok (filepath_to_string path_bytes).
Proof.
  intros b. unfold gen_filepath_to_string, filepath_to_string. cbn [cbind cret].
  rewrite s_contains_guard_eq. destruct (existsb needs_escape (utf8_lossy b)); cbn [cbind cret crun].
  - rewrite !s_replace_char_eq. reflexivity.
  - reflexivity.
Qed.

(* for any lossy conversion (the OS-specific part), the escaping logic alone *)
Theorem gen_filepath_to_string_any_lossy : forall lossy path,
  gen_filepath_to_string lossy false path =
  Ok (let s := lossy path in if existsb needs_escape s then (escape_path s, true) else (s, false)).
Proof.
  intros lossy b. unfold gen_filepath_to_string. cbn [cbind cret].
  rewrite s_contains_guard_eq. destruct (existsb needs_escape (lossy b)); cbn [cbind cret crun].
  - rewrite !s_replace_char_eq. reflexivity.
  - reflexivity.
Qed.

Theorem gen_check_for_invalid_characters_spec : forall p,
  gen_check_for_invalid_characters false p =
  Ok (match check_for_invalid_characters p with Some e => inl (err_msg e) | None => inr tt end).
Proof.
  intros p. unfold gen_check_for_invalid_characters, check_for_invalid_characters, s_contains_char, NUL, REPL.
  destruct (existsb (N.eqb 0) p); [reflexivity|].
  destruct (existsb (N.eqb 65533) p); reflexivity.
Qed.

(* ------------------------------------------------------------------------- *)
(* unescape                                                                  *)
(* ------------------------------------------------------------------------- *)
Lemma find_none_unescape s : s_find_char 92 s = None -> unescape s = Some s.
Proof.
  induction s as [|x t IH]; [reflexivity|]. cbn [s_find_char unescape]. unfold BSL.
  destruct (x =? 92); [discriminate|]. destruct (s_find_char 92 t); [discriminate|].
  intros _. rewrite IH by reflexivity. reflexivity.
Qed.

Lemma find_some_split : forall s i, s_find_char 92 s = Some i ->
  exists pre rest, s = pre ++ 92 :: rest /\ s_find_char 92 pre = None /\ i = s_len pre.
Proof.
  induction s as [|x t IH]; intros i H; [discriminate|]. cbn [s_find_char] in H.
  destruct (x =? 92) eqn:E.
  - apply N.eqb_eq in E. subst x. inversion H; subst. exists [], t. repeat split; reflexivity.
  - destruct (s_find_char 92 t) as [j|] eqn:F; [|discriminate]. inversion H; subst.
    destruct (IH j eq_refl) as (pre & rest & -> & Fp & ->).
    exists (x :: pre), rest. repeat split. cbn [s_find_char]. rewrite E, Fp. reflexivity.
Qed.

Lemma unescape_app_pre pre r : s_find_char 92 pre = None -> unescape (pre ++ r) = option_map (app pre) (unescape r).
Proof.
  induction pre as [|x t IH]; intros F; [cbn [app]; destruct (unescape r); reflexivity|].
  cbn [s_find_char] in F. cbn [app unescape]. unfold BSL.
  destruct (x =? 92); [discriminate|]. destruct (s_find_char 92 t); [discriminate|].
  rewrite IH by reflexivity. destruct (unescape r); reflexivity.
Qed.

Lemma while1_eq fuel acc path :
  gen_unescape_while1 fuel acc path =
  match s_find_char 92 path with
  | Some i => match fuel with O => OutOfFuel | S f => gen_unescape_while1 (S f) acc path end
  | None => cret (acc, path)
  end.
Proof. destruct fuel; cbn [gen_unescape_while1]; destruct (s_find_char 92 path); reflexivity. Qed.

Definition unescape_k (x : list N * list N) : ctl (list N + list N) (list N + list N) :=
  let '(u, p) := x in cret (inr (u ++ p)).

Lemma while1_spec : forall fuel path acc, (length path <= fuel)%nat -> s_len path < USIZE_LIMIT ->
  cbind (gen_unescape_while1 fuel acc path) unescape_k =
  match unescape path with
  | Some u => Ok (inr (inr (acc ++ u)))
  | None => Ok (inl (inl (err_msg EEscape)))
  end.
Proof.
  induction fuel as [|f IH]; intros path acc L B.
  - destruct path; [|cbn [length] in L; lia]. reflexivity.
  - destruct (s_find_char 92 path) as [i|] eqn:F.
    2:{ rewrite while1_eq, F. rewrite (find_none_unescape _ F). reflexivity. }
    destruct (find_some_split _ _ F) as (pre & rest & -> & Fp & ->).
    rewrite (unescape_app_pre _ _ Fp).
    cbn [gen_unescape_while1]. rewrite F.
    rewrite s_len_app in *. cbn [s_len] in *. change (s_utf8_len 92) with 1 in *.
    unfold mi_sub at 1. replace (1 <=? s_len pre + (1 + s_len rest)) with true by lia. cbn [clift cbind].
    destruct rest as [|d t'].
    + cbn [s_len]. replace (s_len pre <? s_len pre + (1 + 0) - 1) with false by lia. reflexivity.
    + cbn [s_len] in *. pose proof (s_utf8_len_pos d) as Pd.
      replace (s_len pre <? s_len pre + (1 + (s_utf8_len d + s_len t')) - 1) with true by lia.
      unfold s_slice_to. rewrite s_to_app. cbn [clift cbind].
      unfold mi_add at 1, fits. replace (s_len pre + 1 <? 2 ^ 64) with true by (change (2 ^ 64) with USIZE_LIMIT; lia).
      cbn [clift cbind]. unfold s_slice_from at 1. rewrite s_from_app.
      change (s_from_opt (92 :: d :: t') 1) with (s_from_opt (d :: t') (1 - 1)). rewrite s_from_0.
      cbn [clift cbind s_chars_next fst s_unwrap].
      assert (NEXT : forall x, s_utf8_len d = 1 ->
        (t6 <~ clift (mi_add 64 (s_len pre) 2) ;; t7 <~ clift (s_slice_from (pre ++ 92 :: d :: t') t6) ;;
         gen_unescape_while1 f x t7) = (gen_unescape_while1 f x t' : ctl (list N + list N) (list N * list N))).
      { intros x D1. unfold mi_add, fits.
        replace (s_len pre + 2 <? 2 ^ 64) with true by (change (2 ^ 64) with USIZE_LIMIT; lia).
        cbn [clift cbind]. unfold s_slice_from. rewrite s_from_app.
        cbn [s_from_opt]. change (s_utf8_len 92) with 1. rewrite D1.
        change (2 =? 0) with false. change (2 <? 1) with false. change (2 - 1) with 1.
        change (1 =? 0) with false. change (1 <? 1) with false. change (1 - 1) with 0.
        rewrite s_from_0. reflexivity. }
      assert (LT : (length t' <= f)%nat) by (rewrite app_length in L; cbn [length] in L; lia).
      assert (BT : s_len t' < USIZE_LIMIT) by lia.
      cbn [unescape]. unfold BSL at 1. change (92 =? 92) with true. cbv iota.
      destruct (N.eqb_spec d 110) as [->|N1].
      { cbn [cbind cret]. rewrite NEXT by reflexivity. rewrite IH by assumption.
        change (110 =? 110) with true. cbv iota. unfold LF.
        destruct (unescape t') as [u|]; cbn [option_map]; [|reflexivity].
        rewrite <- !app_assoc. reflexivity. }
      destruct (N.eqb_spec d 114) as [->|N2].
      { cbn [cbind cret]. rewrite NEXT by reflexivity. rewrite IH by assumption.
        change (114 =? 110) with false. change (114 =? 114) with true. cbv iota. unfold CR.
        destruct (unescape t') as [u|]; cbn [option_map]; [|reflexivity].
        rewrite <- !app_assoc. reflexivity. }
      destruct (N.eqb_spec d 92) as [->|N3].
      { cbn [cbind cret]. rewrite NEXT by reflexivity. rewrite IH by assumption.
        change (92 =? 110) with false. change (92 =? 114) with false. unfold BSL. change (92 =? 92) with true. cbv iota.
        destruct (unescape t') as [u|]; cbn [option_map]; [|reflexivity].
        rewrite <- !app_assoc. reflexivity. }
      cbn [cbind creturn]. unfold BSL.
      replace (d =? 110) with false by (symmetry; apply N.eqb_neq; exact N1).
      replace (d =? 114) with false by (symmetry; apply N.eqb_neq; exact N2).
      replace (d =? 92) with false by (symmetry; apply N.eqb_neq; exact N3).
      reflexivity.
Qed.

Theorem gen_unescape_spec : forall fuel s, (length s <= fuel)%nat -> str_len s < USIZE_LIMIT ->
  gen_unescape fuel s = Ok (match unescape s with Some u => inr u | None => inl (err_msg EEscape) end).
Proof.
  intros fuel s L B. rewrite <- s_len_eq in B. unfold gen_unescape.
  pose proof (while1_spec fuel s [] L B) as W. unfold unescape_k in W.
  change (crun (cbind (gen_unescape_while1 fuel [] s) (fun x => let '(u, p) := x in cret (inr (u ++ p)))) =
          Ok (match unescape s with Some u => inr u | None => inl (err_msg EEscape) end)).
  rewrite W. destruct (unescape s); reflexivity.
Qed.

(* ------------------------------------------------------------------------- *)
(* the two line layouts                                                      *)
(* ------------------------------------------------------------------------- *)
Theorem gen_split_untagged_spec : forall las,
  gen_split_untagged_check_line las = Ok (split_untagged_check_line las).
Proof. intros las. unfold gen_split_untagged_check_line, split_untagged_check_line. cbn [crun cret]. rewrite s_split_once_eq. reflexivity. Qed.

(* the source returns (file, hash) for the tagged layout, the model (hash, file) *)
Definition swap_pair (x : list N * list N) : list N * list N := (snd x, fst x).

Theorem gen_split_tagged_spec : forall las,
  gen_split_tagged_check_line las = Ok (option_map swap_pair (split_tagged_check_line las)).
Proof.
  intros las. unfold gen_split_tagged_check_line, split_tagged_check_line, s_starts_with.
  rewrite s_strip_prefix_eq. change [66; 76; 65; 75; 69; 51; 32; 40] with TAG_PREFIX.
  destruct (strip_prefix TAG_PREFIX las) as [r|] eqn:E; cbn [negb]; [|reflexivity].
  apply strip_prefix_spec in E. subst las.
  unfold s_slice_from. rewrite <- (N.add_0_r (s_len TAG_PREFIX)), s_from_app, s_from_0. cbn [clift cbind cret crun].
  rewrite s_rsplit_once_eq. change [41; 32; 61; 32] with TAG_SEP.
  destruct (rsplit_once TAG_SEP r) as [[a b]|]; reflexivity.
Qed.

(* ------------------------------------------------------------------------- *)
(* parse_check_line                                                          *)
(* ------------------------------------------------------------------------- *)
Fixpoint skip2 (n : nat) (l : list N) : list N :=
  match n with
  | O => l
  | S n' => match l with _ :: _ :: t => skip2 n' t | _ => [] end
  end.

Lemma for1_spec : forall arr chars,
  gen_parse_check_line_for1 arr chars =
  match hex_loop fixed_cfg (length arr) chars with
  | Ok (inr bs) => Ok (inr (bs, skip2 (length arr) chars))
  | Ok (inl _) => Ok (inl (inl (err_msg EHex)))
  | Panic c => Panic c
  | OutOfFuel => OutOfFuel
  end.
Proof.
  induction arr as [|x arr IH]; intros chars; [reflexivity|].
  cbn [gen_parse_check_line_for1 length hex_loop].
  destruct chars as [|hi [|lo t]]; [reflexivity|reflexivity|].
  cbn [s_chars_next skip2]. rewrite gen_hex_half_byte_spec. cbn [clift cbind].
  destruct (hex_half_byte hi) as [a|] eqn:Ha; cbn [ctry cbind]; [|reflexivity].
  apply hex_half_some in Ha as [La _].
  unfold mi_mul at 1, fits. replace (16 * a <? 2 ^ 8) with true by (change (2 ^ 8) with 256; lia). cbn [clift cbind].
  rewrite gen_hex_half_byte_spec. cbn [clift cbind].
  destruct (hex_half_byte lo) as [b|] eqn:Hb; cbn [ctry cbind]; [|reflexivity].
  apply hex_half_some in Hb as [Lb _].
  unfold mi_add at 1, fits. replace (16 * a + b <? 2 ^ 8) with true by (change (2 ^ 8) with 256; lia). cbn [clift cbind].
  rewrite IH. destruct (hex_loop fixed_cfg (length arr) t) as [[e|bs]|c|]; reflexivity.
Qed.

(* ParsedCheckLine { file_string, is_escaped, file_path, expected_hash } against the model's POk path hash esc fstr *)
Definition parsed_of_model (r : presult) : list N + gen_ParsedCheckLine :=
  match r with
  | PErr e => inl (err_msg e)
  | POk p h esc fstr => inr (fstr, esc, p, h)
  end.

Definition res_map {A B} (f : A -> B) (r : res A) : res B :=
  match r with Ok a => Ok (f a) | Panic c => Panic c | OutOfFuel => OutOfFuel end.

Definition piece (f s : list N) : Prop := exists a b, s = a ++ f ++ b.

Lemma piece_bounds f s : piece f s -> (length f <= length s)%nat /\ str_len f <= str_len s.
Proof. intros (a & b & ->). rewrite !app_length, !str_len_app. lia. Qed.

Lemma trim_end_prefix s : exists t, s = trim_end s ++ t.
Proof.
  induction s as [|c t [t' IH]]; [exists []; reflexivity|]. cbn [trim_end].
  destruct (trim_end t) as [|y ys] eqn:E.
  - destruct (is_crlf c); [exists (c :: t); reflexivity|exists t; reflexivity].
  - exists t'. cbn [app]. f_equal. exact IH.
Qed.

(* the statements after the two fields have been found *)
Lemma fields_tail fuel (esc : bool) hh f : (length f <= fuel)%nat -> str_len f < USIZE_LIMIT ->
  forall (K : ctl (list N + gen_ParsedCheckLine) (list N + gen_ParsedCheckLine)),
  K = (t4 <~ clift (mi_mul 64 2 rs_OUT_LEN) ;;
       if (s_len hh =? t4) then
         let hex_chars := hh in
         let hash_bytes := repeat 0 (N.to_nat rs_OUT_LEN) in
         '(hash_bytes, hex_chars) <~ gen_parse_check_line_for1 hash_bytes hex_chars ;;
         let expected_hash := hash_bytes in
         t15 <~ ((if esc then t13 <~ clift (gen_unescape fuel f) ;; t14 <~ ctry t13 ;; cret t14 else cret f) : ctl (list N + gen_ParsedCheckLine) (list N)) ;;
         let file_path_string := t15 in
         if negb (s_is_empty file_path_string) then
           t16 <~ clift (gen_check_for_invalid_characters false file_path_string) ;;
           t17 <~ ctry t16 ;;
           cret (inr (f, esc, file_path_string, expected_hash))
         else creturn (inl [101; 109; 112; 116; 121; 32; 102; 105; 108; 101; 32; 112; 97; 116; 104])
       else creturn (inl [73; 110; 118; 97; 108; 105; 100; 32; 104; 97; 115; 104; 32; 108; 101; 110; 103; 116; 104])) ->
  crun K = res_map parsed_of_model (parse_fields fixed_cfg esc hh f).
Proof.
  intros L B K ->. change (mi_mul 64 2 rs_OUT_LEN) with (Ok 64 : res N). cbn [clift cbind].
  unfold parse_fields. rewrite s_len_eq. destruct (str_len hh =? 64); cbn [negb]; [|reflexivity].
  cbv zeta. rewrite for1_spec.
  change (length (repeat 0 (N.to_nat rs_OUT_LEN))) with 32%nat.
  destruct (hex_loop fixed_cfg 32 hh) as [[e|bs]|c|] eqn:HL; cbn [cbind]; try reflexivity.
  { apply hex_loop_err in HL. subst e. reflexivity. }
  assert (CHK : forall p, p <> [] ->
    crun (if negb (s_is_empty p) then
            t16 <~ clift (gen_check_for_invalid_characters false p) ;; t17 <~ ctry t16 ;; cret (inr (f, esc, p, bs))
          else creturn (inl [101; 109; 112; 116; 121; 32; 102; 105; 108; 101; 32; 112; 97; 116; 104])) =
    (Ok (parsed_of_model (match check_for_invalid_characters p with Some e => PErr e | None => POk p bs esc f end))
       : res (list N + gen_ParsedCheckLine))).
  { intros p NE. destruct p as [|c p]; [congruence|]. cbn [s_is_empty negb].
    rewrite gen_check_for_invalid_characters_spec. cbn [clift cbind].
    destruct (check_for_invalid_characters (c :: p)); reflexivity. }
  destruct esc.
  - rewrite gen_unescape_spec by assumption. cbn [clift cbind].
    destruct (unescape f) as [p|]; cbn [ctry cbind cret]; [|reflexivity].
    destruct p as [|c p]; [reflexivity|]. rewrite CHK by discriminate. destruct (check_for_invalid_characters (c :: p)); reflexivity.
  - cbn [cbind cret]. destruct f as [|c p]; [reflexivity|]. rewrite CHK by discriminate. destruct (check_for_invalid_characters (c :: p)); reflexivity.
Qed.

Theorem gen_parse_check_line_spec : forall fuel line, (length line <= fuel)%nat -> str_len line < USIZE_LIMIT ->
  gen_parse_check_line false fuel line = res_map parsed_of_model (parse_check_line fixed_cfg line).
Proof.
  intros fuel line L B. unfold gen_parse_check_line, parse_check_line. cbv zeta. rewrite s_trim_eq.
  destruct (trim_end_prefix line) as [tl TL].
  destruct (trim_end line) as [|first rest] eqn:TE; [reflexivity|].
  cbn [s_chars_next fst]. unfold BSL.
  assert (SPLIT : forall (esc : bool) las, piece las line ->
    crun ('(file_str, hash_hex) <~
            (t2 <~ clift (gen_split_tagged_check_line las) ;;
             match t2 with
             | Some (left_, right_) => cret (left_, right_)
             | _ => t3 <~ clift (gen_split_untagged_check_line las) ;;
                    match t3 with
                    | Some (left_, right_) => cret (right_, left_)
                    | _ => creturn (inl [73; 110; 118; 97; 108; 105; 100; 32; 99; 104; 101; 99; 107; 32; 108; 105; 110; 101; 32; 102; 111; 114; 109; 97; 116])
                    end
             end) ;;
          t4 <~ clift (mi_mul 64 2 rs_OUT_LEN) ;;
          if (s_len hash_hex =? t4) then
            let hex_chars := hash_hex in
            let hash_bytes := repeat 0 (N.to_nat rs_OUT_LEN) in
            '(hash_bytes, hex_chars) <~ gen_parse_check_line_for1 hash_bytes hex_chars ;;
            let expected_hash := hash_bytes in
            t15 <~ ((if esc then t13 <~ clift (gen_unescape fuel file_str) ;; t14 <~ ctry t13 ;; cret t14 else cret file_str) : ctl (list N + gen_ParsedCheckLine) (list N)) ;;
            let file_path_string := t15 in
            if negb (s_is_empty file_path_string) then
              t16 <~ clift (gen_check_for_invalid_characters false file_path_string) ;;
              t17 <~ ctry t16 ;;
              cret (inr (file_str, esc, file_path_string, expected_hash))
            else creturn (inl [101; 109; 112; 116; 121; 32; 102; 105; 108; 101; 32; 112; 97; 116; 104])
          else creturn (inl [73; 110; 118; 97; 108; 105; 100; 32; 104; 97; 115; 104; 32; 108; 101; 110; 103; 116; 104])) =
    res_map parsed_of_model
      (match split_check_line fixed_cfg las with
       | None => Ok (PErr EFormat)
       | Some (hash_hex, file_str) => parse_fields fixed_cfg esc hash_hex file_str
       end)).
  { intros esc las PL.
    assert (FB : forall hh f, split_check_line fixed_cfg las = Some (hh, f) -> (length f <= fuel)%nat /\ str_len f < USIZE_LIMIT).
    { intros hh f SP. apply split_check_line_spec in SP.
      assert (PF : piece f las).
      { destruct SP as [-> | ->]; [exists (hh ++ PLAIN_SEP), []; rewrite app_nil_r, <- app_assoc; reflexivity
                                  |exists TAG_PREFIX, (TAG_SEP ++ hh); reflexivity]. }
      destruct PL as (a & b & ->). destruct PF as (a' & b' & ->).
      rewrite !app_length in L. rewrite !str_len_app in B. split; lia. }
    rewrite gen_split_tagged_spec, gen_split_untagged_spec. cbn [clift cbind].
    unfold split_check_line, orelse in *. cbn [tagged_first fixed_cfg] in *.
    destruct (split_tagged_check_line las) as [[hh f]|] eqn:E1; cbn [option_map swap_pair fst snd cbind cret].
    - destruct (FB hh f eq_refl) as [F1 F2]. apply (fields_tail fuel esc hh f F1 F2). reflexivity.
    - destruct (split_untagged_check_line las) as [[hh f]|] eqn:E2; cbn [cbind cret creturn]; [|reflexivity].
      destruct (FB hh f eq_refl) as [F1 F2]. apply (fields_tail fuel esc hh f F1 F2). reflexivity. }
  destruct (first =? 92) eqn:E.
  - apply N.eqb_eq in E. subst first.
    unfold s_slice_from. change (s_from_opt (92 :: rest) 1) with (s_from_opt rest (1 - 1)). rewrite s_from_0.
    cbn [clift cbind cret]. apply (SPLIT true rest). exists [92], tl. rewrite TL. reflexivity.
  - cbn [cbind cret]. apply (SPLIT false (first :: rest)). exists [], tl. rewrite TL. reflexivity.
Qed.

(* consequence: on every line the translated parser never panics (the two repaired defects were panics / wrong
   rejections here), and it accepts exactly what the model accepts *)
Theorem gen_parse_check_line_total : forall fuel line, (length line <= fuel)%nat -> str_len line < USIZE_LIMIT ->
  exists r, gen_parse_check_line false fuel line = Ok (parsed_of_model r) /\ parse_check_line fixed_cfg line = Ok r.
Proof.
  intros fuel line L B. destruct (parse_total line) as [r Hr]. exists r. split; [|exact Hr].
  rewrite gen_parse_check_line_spec, Hr by assumption. reflexivity.
Qed.
