(* C04 (PLACEHOLDER, to be replaced by the real theorems): the result of the one-shot
   hash does not depend on the platform: any two platforms satisfying PlatformOK give the
   same result (both equal the specification, Proofs/C01P.v). *)
From Coq Require Import NArith List Bool.
From V Require Import Base.Res Base.Word Spec.Compress Spec.Tree Spec.Blake3 Model.Portable Model.Platform Model.RsWide Proofs.FormulasP Proofs.C01P gen.GenFormulas.
Import ListNotations.
Open Scope N_scope.

Theorem C04_hash_platform_independent : forall p q, PlatformOK p -> PlatformOK q -> forall input,
  len input < 2 ^ 64 -> rs_hash p input = rs_hash q input.
Proof.
  intros p q Hp Hq input H.
  rewrite (rs_hash_spec p Hp input H), (rs_hash_spec q Hq input H). reflexivity.
Qed.

Print Assumptions C04_hash_platform_independent.
