(* Fixed-width unsigned machine arithmetic with Rust debug-build semantics:
   overflow, underflow, over-wide shifts are Panic (codes >= 1000, debug only);
   division by zero is Panic 1 (every build).  Values are N, invariant v < 2^W.
   The translator tools/gen_coq.py emits terms over these operations, so the
   integer formulas the proofs talk about are the repository's own text. *)
From Coq Require Import NArith List Lia Bool.
From V Require Import Base.Res.
Import ListNotations.
Open Scope N_scope.

Definition fits (W x : N) : bool := x <? 2 ^ W.

Definition mi_add (W a b : N) : res N :=
  if fits W (a + b) then Ok (a + b) else Panic 1001.
Definition mi_sub (W a b : N) : res N :=
  if b <=? a then Ok (a - b) else Panic 1002.
Definition mi_mul (W a b : N) : res N :=
  if fits W (a * b) then Ok (a * b) else Panic 1003.
Definition mi_div (W a b : N) : res N :=
  if b =? 0 then Panic 1 else Ok (a / b).
Definition mi_rem (W a b : N) : res N :=
  if b =? 0 then Panic 1 else Ok (a mod b).
(* Rust << checks only the shift amount; shifted-out bits are dropped. *)
Definition mi_shl (W a b : N) : res N :=
  if b <? W then Ok (N.land (N.shiftl a b) (N.ones W)) else Panic 1004.
Definition mi_shr (W a b : N) : res N :=
  if b <? W then Ok (N.shiftr a b) else Panic 1005.
Definition mi_and (W a b : N) : res N := Ok (N.land a b).
Definition mi_or (W a b : N) : res N := Ok (N.lor a b).
Definition mi_xor (W a b : N) : res N := Ok (N.lxor a b).
(* `x as uW`: truncation, never panics. *)
Definition mi_cast (W a : N) : res N := Ok (N.land a (N.ones W)).

(* smallest power of two >= a (1 for a = 0); debug panic when it does not fit *)
Definition npot (a : N) : N :=
  match a with
  | 0 => 1
  | _ => 2 ^ N.log2_up a
  end.
Definition mi_npot (W a : N) : res N :=
  if fits W (npot a) then Ok (npot a) else Panic 1006.

(* number of trailing zero bits; W for 0 *)
Fixpoint tz_pos (p : positive) : N :=
  match p with
  | xO q => 1 + tz_pos q
  | _ => 0
  end.
Definition tz (W a : N) : N :=
  match a with 0 => W | Npos p => tz_pos p end.
Definition mi_tz (W a : N) : res N := Ok (tz W a).

Fixpoint popcount_pos (p : positive) : N :=
  match p with
  | xH => 1
  | xO q => popcount_pos q
  | xI q => 1 + popcount_pos q
  end.
Definition popcount (a : N) : N :=
  match a with 0 => 0 | Npos p => popcount_pos p end.
Definition mi_popcount (W a : N) : res N := Ok (popcount a).

Definition mi_min (W a b : N) : res N := Ok (N.min a b).
Definition mi_max (W a b : N) : res N := Ok (N.max a b).

(* leading zeros of a W-bit value (C: __builtin_clzll is undefined for 0; Panic 2) *)
Definition mi_clz (W a : N) : res N :=
  match a with 0 => Panic 2 | _ => Ok (W - 1 - N.log2 a) end.

(* combinators used by generated code *)
Definition mb (op : N -> N -> res N) (x y : res N) : res N :=
  a <- x ;; b <- y ;; op a b.
Definition mu (op : N -> res N) (x : res N) : res N :=
  a <- x ;; op a.
Definition mcmp (op : N -> N -> bool) (x y : res N) : res bool :=
  a <- x ;; b <- y ;; Ok (op a b).
Definition nneb (a b : N) : bool := negb (a =? b).
