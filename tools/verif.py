#!/usr/bin/env python3
"""Orchestrator for the per-property checks (DESIGN.md section 2.5).

  ./check <ID> <quick|thorough>        run the check for one property
  ./check <ID> replay <file>           re-run one recorded case on both sides
"""
import concurrent.futures
import fcntl
import hashlib
import importlib
import json
import os
import re
import subprocess
import sys
import time

V = os.path.dirname(os.path.dirname(os.path.abspath(__file__)))
REPO = os.environ.get("VERIF_REPO", "/repo")
BUILD = os.path.join(V, "build")
COQ = os.path.join(V, "coq")
NPROC = os.cpu_count() or 4
HOOK_FLAGS = "--cfg blake3_team_blake3_verif"

sys.path.insert(0, os.path.join(V, "tools"))
import gen_coq  # noqa: E402


class Lock:
    def __init__(self, name):
        os.makedirs(BUILD, exist_ok=True)
        self.path = os.path.join(BUILD, "." + name + ".lock")

    def __enter__(self):
        self.f = open(self.path, "w")
        fcntl.flock(self.f, fcntl.LOCK_EX)
        return self

    def __exit__(self, *a):
        fcntl.flock(self.f, fcntl.LOCK_UN)
        self.f.close()


def sh(cmd, timeout=None, cwd=None, env=None, input=None):
    e = dict(os.environ)
    if env:
        e.update(env)
    try:
        p = subprocess.run(cmd, shell=isinstance(cmd, str), cwd=cwd, env=e, input=input, timeout=timeout,
                           stdout=subprocess.PIPE, stderr=subprocess.STDOUT, text=True)
        return p.returncode, p.stdout
    except subprocess.TimeoutExpired as ex:
        out = ex.stdout or ""
        if isinstance(out, bytes):
            out = out.decode(errors="replace")
        return 124, out + "\n[timeout]"


# ---------------------------------------------------------------------------
# step 1: translator
# ---------------------------------------------------------------------------
def regen():
    with Lock("coq"):
        rc, out = sh([sys.executable, os.path.join(V, "tools", "gen_coq.py")], timeout=120)
    try:
        st = json.loads(out)
    except Exception:
        st = {"errors": [{"file": "*", "anchor": out[-2000:]}], "changed": [], "read": {}, "generated": {}}
    return st


# ---------------------------------------------------------------------------
# step 2/3: Coq build + audit
# ---------------------------------------------------------------------------
def coq_make(targets, timeout=1500):
    with Lock("coq"):
        if not os.path.exists(os.path.join(COQ, "Makefile")) or \
                os.path.getmtime(os.path.join(COQ, "Makefile")) < os.path.getmtime(os.path.join(COQ, "_CoqProject")):
            sh("coq_makefile -f _CoqProject -o Makefile", cwd=COQ, timeout=60)
        rc, out = sh(["make", "-j%d" % NPROC] + targets, cwd=COQ, timeout=timeout)
    return rc == 0, out


FORBIDDEN = re.compile(r"\b(Admitted|admit|Axiom|Axioms|Parameter|Parameters|Conjecture|Hypothesis|Hypotheses|Variable|Variables)\b"
                       r"|Unset\s+Guard|bypass_check|type-in-type|impredicative-set|Admit\s+Obligations|Unset\s+Universe|Unset\s+Positivity")


def strip_coq_comments(s):
    out, depth, i = [], 0, 0
    while i < len(s):
        if s.startswith("(*", i):
            depth += 1
            i += 2
        elif s.startswith("*)", i) and depth:
            depth -= 1
            i += 2
        else:
            if not depth:
                out.append(s[i])
            i += 1
    return "".join(out)


def audit_sources():
    """No Admitted/Axiom/... anywhere under coq/ (Variable/Hypothesis allowed only inside a Section)."""
    bad = []
    for root, _, files in os.walk(COQ):
        for fn in files:
            if not fn.endswith(".v"):
                continue
            p = os.path.join(root, fn)
            text = strip_coq_comments(open(p).read())
            depth = 0
            for ln, line in enumerate(text.split("\n"), 1):
                if re.match(r"\s*Section\b", line):
                    depth += 1
                if re.match(r"\s*End\b", line) and depth:
                    depth -= 1
                for m in FORBIDDEN.finditer(line):
                    w = m.group(0)
                    if w in ("Variable", "Variables", "Hypothesis", "Hypotheses") and depth > 0:
                        continue
                    bad.append(f"{os.path.relpath(p, V)}:{ln}: {w}")
                # the executable models and the extraction must not depend on proof files: the correspondence check
                # has to keep running (and finding failing inputs) when a proof breaks
                rel = os.path.relpath(p, COQ)
                if rel.startswith(("Model" + os.sep, "Extract" + os.sep, "Spec" + os.sep, "Base" + os.sep)) and \
                        re.search(r"\bProofs\.\w+", line):
                    bad.append(f"{os.path.relpath(p, V)}:{ln}: a model file imports a proof file")
    return bad


ALLOWED_ASSUMPTIONS = set()  # no axioms at all: every theorem must be "Closed under the global context"


def audit_props(pid):
    """Compile Props/<pid>.v afresh (its dependencies are up to date), capture Print Assumptions."""
    src = os.path.join(COQ, "Props", pid + ".v")
    text = strip_coq_comments(open(src).read())
    theorems = re.findall(r"^\s*(?:Theorem|Lemma|Corollary)\s+(\w+)", text, re.M)
    printed = re.findall(r"Print Assumptions\s+(\w+)\s*\.", text)
    tmpdir = os.path.join(BUILD, "audit")
    os.makedirs(tmpdir, exist_ok=True)
    with Lock("coq"):
        rc, out = sh(["coqc", "-Q", COQ, "V", "-w", "-notation-overridden", "-o", os.path.join(tmpdir, pid + ".vo"), src],
                     timeout=900)
    closed = out.count("Closed under the global context")
    axioms = []
    if "Axioms:" in out:
        for blk in out.split("Axioms:")[1:]:
            for line in blk.split("\n")[1:]:
                m = re.match(r"^(\S+)\s*:", line)
                if m:
                    axioms.append(m.group(1))
                elif line.strip() == "" or line.startswith("Closed"):
                    break
    problems = []
    if rc != 0:
        problems.append("Props/%s.v does not compile: %s" % (pid, out[-1500:]))
    missing = [t for t in theorems if t not in printed]
    if missing:
        problems.append("theorems without Print Assumptions: %s" % missing)
    if axioms and not set(axioms) <= ALLOWED_ASSUMPTIONS:
        problems.append("axioms used: %s" % sorted(set(axioms)))
    if closed != len(printed):
        problems.append(f"{closed} of {len(printed)} property theorems are closed under the global context")
    return {"theorems": theorems, "obligations": len(printed), "discharged": closed if rc == 0 else 0,
            "axioms": axioms, "problems": problems, "log": out[-3000:]}


# ---------------------------------------------------------------------------
# step 4: harness builds and runs
# ---------------------------------------------------------------------------
def cargo_build(flavour="default", profile="debug", crate="rs", hooks=True, features=None):
    """Build the Rust harness against /repo's working tree. Returns (binary or None, log)."""
    feats = list(features or [])
    if flavour in ("prefer_intrinsics", "pure"):
        feats.append(flavour)
    tdir = os.path.join(BUILD, "cargo", crate + "-" + flavour + ("-" + "-".join(sorted(features)) if features else ""))
    cmd = ["cargo", "build", "--offline"]
    if profile == "release":
        cmd.append("--release")
    if feats:
        cmd += ["--features", ",".join(feats)]
    env = {"CARGO_NET_OFFLINE": "true", "CARGO_TARGET_DIR": tdir,
           "RUSTFLAGS": HOOK_FLAGS if hooks else ""}
    with Lock("cargo-" + os.path.basename(tdir)):
        rc, out = sh(cmd, cwd=os.path.join(V, "harness", crate), env=env, timeout=1500)
    names = {"rs": "blake3_verif_harness", "b3sum": "b3sum_verif"}
    binp = os.path.join(tdir, profile, names.get(crate, crate))
    return (binp if rc == 0 and os.path.exists(binp) else None), out


def build_model():
    ok, out = coq_make(["Extract/Extract.vo"])
    if not ok:
        return None, out
    with Lock("ocaml"):
        rc, out2 = sh([os.path.join(V, "tools", "build_model.sh")], timeout=600)
    drv = os.path.join(BUILD, "ocaml", "driver")
    return (drv if rc == 0 and os.path.exists(drv) else None), out + out2


def run_lines(binary, lines, shards=None, timeout=1200, env=None, pre=None):
    """Run `binary` over case lines (id-prefixed), sharded; returns dict id -> result string."""
    if not lines:
        return {}
    shards = shards or min(NPROC, max(1, len(lines) // 4))
    chunks = [lines[i::shards] for i in range(shards)]

    def one(chunk):
        cmd = binary if isinstance(binary, list) else [binary]
        if pre:
            cmd = pre + cmd
        e = dict(os.environ)
        if env:
            e.update(env)
        try:
            p = subprocess.run(cmd, input="\n".join(chunk) + "\n", stdout=subprocess.PIPE, stderr=subprocess.PIPE,
                               text=True, timeout=timeout, env=e)
            return p.returncode, p.stdout, p.stderr
        except subprocess.TimeoutExpired:
            return 124, "", "timeout"
    res = {}
    with concurrent.futures.ThreadPoolExecutor(max_workers=shards) as ex:
        for chunk, (rc, out, err) in zip(chunks, ex.map(one, chunks)):
            for line in out.split("\n"):
                if not line.strip():
                    continue
                cid, _, rest = line.partition(" ")
                res[cid] = rest
            for c in chunk:
                cid = c.split(" ", 1)[0]
                if cid not in res:
                    res[cid] = "CRASH rc=%s %s" % (rc, err.strip()[-200:].replace("\n", "|"))
    return res


def run_model(driver, lines, timeout=1200):
    # deep recursion on long lists: raise the stack limit for the driver
    return run_lines(["bash", "-c", "ulimit -s unlimited 2>/dev/null || ulimit -s 1000000; exec " + driver], lines,
                     timeout=timeout)


def compare_line(model, impl, profile):
    """True if the implementation line agrees with the model line.
    PANIC_DBG (debug-only panic in the model): a debug build must panic there; a release
    build's behaviour from that point on is unspecified (the rest of the line is ignored)."""
    mt, it = model.split(), impl.split()
    if impl.startswith("SKIP"):
        return True
    for i, m in enumerate(mt):
        if m == "PANIC_DBG":
            if profile == "debug":
                return i < len(it) and it[i] == "PANIC" and len(it) == i + 1
            return True
        if i >= len(it) or it[i] != m:
            return False
    return len(mt) == len(it)


# ---------------------------------------------------------------------------
# known findings
# ---------------------------------------------------------------------------
def known_findings(pid):
    """Lines `finding: property=<id> key=<key> <text>` suppress; `fixed:` lines suppress nothing."""
    out = []
    p = os.path.join(V, "known_findings.txt")
    if os.path.exists(p):
        for line in open(p):
            m = re.match(r"finding:\s+property=(\S+)\s+key=(\S+)\s+(.*)", line.strip())
            if m and m.group(1) == pid:
                out.append((m.group(2), m.group(3)))
    return out


# ---------------------------------------------------------------------------
# the generic check driver
# ---------------------------------------------------------------------------
def write_replay(pid, obj):
    d = os.path.join(V, "replays", pid)
    os.makedirs(d, exist_ok=True)
    h = hashlib.sha256(json.dumps(obj, sort_keys=True).encode()).hexdigest()[:16]
    p = os.path.join(d, h + ".json")
    with open(p, "w") as f:
        json.dump(obj, f, indent=1)
    return p


def write_evidence(pid, tier, seed, level, coverage, assumptions, wall, violations):
    os.makedirs(os.path.join(V, "evidence"), exist_ok=True)
    ev = {"property_id": pid, "tier": tier, "seed": seed, "level": level, "coverage": coverage,
          "assumptions": assumptions, "wall_s": round(wall, 2), "violations": violations}
    with open(os.path.join(V, "evidence", pid + ".json"), "w") as f:
        json.dump(ev, f, indent=1)


TRUSTED_BASE = [
    "Coq 8.16.1 kernel, coqc; vm_compute used for finite sweeps; native_compute not used",
    "axioms: none (every property theorem is 'Closed under the global context'; enforced by the audit)",
    "Spec/ (own transcription of the BLAKE3 paper) and the theorem statements as readings of the property text",
    "tools/gen_coq.py translator and its branch tools/gen_coq_wide.py (constants, tables, anchored integer formulas, statement-level "
    "translations of the Rust / C / reference sources into Gallina, test vectors, the event list of the C "
    "get_cpu_features, frames / stack operands / saved registers of the GNU-syntax assembly functions, the list of function "
    "items of the modelled Rust files) and Base/MachInt.v semantics",
    "extraction with ExtrOcamlBasic only (Extract Inductive bool/option/unit/list/prod/sumbool/sumor; "
    "Extract Inlined Constant andb/orb); N/positive/nat stay extracted inductives; OCaml 4.13.1; ocaml/*.ml driver",
    "correspondence machinery: tools/*.py generators/comparer, harness/rs (Rust), harness/c, harness/b3sum",
    "rustc/cargo 1.95, gcc 12; Rust safe-code guarantees; external crates modelled by contract",
]


def main():
    if len(sys.argv) < 3:
        print(__doc__)
        return 2
    pid, tier = sys.argv[1], sys.argv[2]
    seed = int(os.environ.get("VERIF_SEED", "1"))
    mod = importlib.import_module("props." + pid)
    if tier == "replay":
        if hasattr(mod, "replay"):
            return mod.replay(sys.argv[3])
        return generic_replay(pid, sys.argv[3])
    t0 = time.time()
    ctx = Ctx(pid, tier, seed)
    try:
        rc = ctx.run(mod)
    except Exception as e:  # a crash of the machinery is a broken check, say so loudly
        import traceback
        traceback.print_exc()
        print(f"CHECK-ERROR property={pid} {type(e).__name__}: {e}")
        rc = 2
    print(f"[{pid}] {tier} done in {time.time() - t0:.1f}s rc={rc}")
    return rc


def generic_replay(pid, path):
    """re-run the recorded case on the extracted model and on the Rust harness (default/debug build)"""
    rp = json.load(open(path))
    case = rp.get("case")
    print("property:", pid)
    print("broken:", rp.get("broken"))
    if not case:
        print("no concrete failing input was recorded (no-failing-input-found): see 'broken' above")
        return 1
    regen()
    drv, out = build_model()
    line = "r0 " + case
    if drv:
        print("model:", run_model(drv, [line]).get("r0"))
        if case.split()[0] == "H":
            print("specification machine:", run_model(drv, ["r0 S " + case.split(" ", 1)[1]]).get("r0"))
    else:
        print("model: not buildable:", out[-400:])
    build = rp.get("build", "default/debug").split("/")
    if case.split()[0] in ("CH", "kcip", "kxof", "khm", "kxm") and "rs" not in case.split()[:3]:
        import charness
        b, log = charness.build("asm")
        print("implementation (c asm):", charness.run(b, [line]).get("r0") if b else log[-400:])
        return 0
    crate = "b3sum" if case.split()[0] in ("parse", "fts", "unescape", "inv", "half", "print", "rt", "b3hash", "b3check") else "rs"
    flavour = build[0] if build[0] in ("default", "prefer_intrinsics", "pure") else "default"
    b, out = cargo_build(flavour, build[1] if len(build) > 1 and build[1] in ("debug", "release") else "debug", crate=crate)
    if b and crate == "rs":
        print("implementation:", run_lines(b, [line]).get("r0"))
    elif b:
        print("implementation binary:", b, "(b3sum cases are run by tools/props/%s.py; recorded result: %s)" % (pid, rp.get("impl")))
    else:
        print("implementation: not buildable:", out[-400:])
    print("recorded model line:", rp.get("model"))
    print("recorded implementation line:", rp.get("impl"))
    return 0


class Ctx:
    """Shared flow: regen -> coq build -> audit -> correspondence -> (search) -> evidence."""

    def __init__(self, pid, tier, seed):
        self.pid, self.tier, self.seed = pid, tier, seed
        self.t0 = time.time()
        self.broken = []      # names of theorems / correspondences / anchors that no longer check
        self.failures = []    # concrete failing cases: dict(case=..., model=..., impl=..., build=...)
        self.stats = {}
        self.samples = []
        self.evaluations = 0
        self.nontrivial = set()
        self.runs = []        # (name, cases, implementation results, model driver, build) for the search

    def log(self, *a):
        print(f"[{self.pid} {time.time() - self.t0:6.1f}s]", *a, flush=True)

    def run(self, mod):
        pid = self.pid
        # 1. translator
        gen = regen()
        self.gen = gen
        for e in gen["errors"]:
            self.broken.append("translator anchor: %s" % e["anchor"])
        self.log("translator: changed=%s errors=%d" % (gen["changed"], len(gen["errors"])))
        # 1b. optional generation step of a property that needs built objects (C18: nm -> gen/GenGlobals.v)
        if hasattr(mod, "pregen"):
            mod.pregen(self)
        # 2. proofs
        targets = ["Props/%s.vo" % pid] + list(getattr(mod, "EXTRA_COQ_TARGETS", []))
        ok, out = coq_make(targets)
        self.coq_log = out
        if not ok:
            m = re.search(r'File "\./([^"]+)", line (\d+).*?\n(Error:.*?)(?:\n\n|\nmake)', out, re.S)
            where = "%s:%s %s" % (m.group(1), m.group(2), " ".join(m.group(3).split())[:300]) if m else out[-400:]
            self.broken.append("coq build of Props/%s.vo failed: %s" % (pid, where))
        self.log("coq build ok=%s" % ok)
        # 3. audit
        bad = audit_sources()
        if bad:
            self.broken.append("forbidden vernacular: %s" % bad[:5])
        if ok:
            au = audit_props(pid)
            self.broken += au["problems"]
        else:
            au = {"theorems": [], "obligations": 0, "discharged": 0, "axioms": []}
            # count the obligations from the source even though they are not discharged
            text = strip_coq_comments(open(os.path.join(COQ, "Props", pid + ".v")).read())
            au["obligations"] = len(re.findall(r"Print Assumptions", text))
        self.audit = au
        self.log("audit: %d/%d closed" % (au["discharged"], au["obligations"]))
        # 3b. thorough tier: re-check the compiled theorems and everything they depend on with the
        # independent checker coqchk, and take its axiom / unsafe-feature summary
        if ok and self.tier == "thorough" and os.environ.get("VERIF_NO_COQCHK") != "1":
            self.coqchk(pid)
        if os.environ.get("VERIF_SELFTEST_BROKEN") == "1":      # self-test of the search path (never set by a registered command)
            self.broken.append("self-test: VERIF_SELFTEST_BROKEN=1 pretends that a proof obligation broke")
        # 4. correspondence
        self.proofs_ok = ok and not self.broken
        mod.correspondence(self)
        # 5/6. verdict
        return self.finish(mod)

    def coqchk(self, pid):
        t = time.time()
        try:
            r = subprocess.run(["coqchk", "-silent", "-o", "-Q", ".", "V", "V.Props." + pid], cwd=COQ,
                               capture_output=True, text=True, timeout=int(os.environ.get("VERIF_COQCHK_TIMEOUT", "5400")))
            out = r.stdout + r.stderr
        except subprocess.TimeoutExpired:
            self.coqchk_cov = "timed out (not counted as a failure; coqc's kernel accepted the proofs)"
            self.log("coqchk timed out")
            return
        summ = out[out.find("CONTEXT SUMMARY"):] if "CONTEXT SUMMARY" in out else out[-800:]
        fields = dict(re.findall(r"\* (Axioms|Constants/Inductives relying on type-in-type|Constants/Inductives relying on unsafe \(co\)fixpoints|Inductives whose positivity is assumed):\s*(.*?)\n\s*\n", summ + "\n\n", re.S))
        bad = {k: " ".join(v.split()) for k, v in fields.items() if v.strip() != "<none>"}
        okc = r.returncode == 0 and len(fields) == 4 and not bad
        self.coqchk_cov = {"cmd": "coqchk -silent -o -Q . V V.Props.%s" % pid, "rc": r.returncode,
                           "summary": {k: " ".join(v.split()) for k, v in fields.items()}, "wall_s": round(time.time() - t, 1)}
        if not okc:
            self.broken.append("coqchk: rc=%s %s" % (r.returncode, bad or summ[-300:]))
        self.log("coqchk ok=%s in %.0fs" % (okc, time.time() - t))

    # -- helpers for property modules ----------------------------------------
    def need_model(self):
        drv, out = build_model()
        if drv is None:
            self.broken.append("model extraction/build failed: %s" % out[-600:])
        return drv

    def need_harness(self, flavour="default", profile="debug", **kw):
        b, out = cargo_build(flavour, profile, **kw)
        if b is None:
            self.broken.append(f"harness build failed ({flavour}/{profile}): " + out[-800:])
        return b

    def correspond(self, name, cases, model_driver, impl_bin, profile="debug", build="default", nontrivial=None,
                   impl_runner=None):
        """cases: list of 'id rest' lines. Compares model and implementation line by line."""
        if model_driver is None or impl_bin is None:
            return
        mres = run_model(model_driver, cases)
        ires = (impl_runner or run_lines)(impl_bin, cases)
        nfail = 0
        for line in cases:
            cid, _, rest = line.partition(" ")
            self.evaluations += 1
            m, i = mres.get(cid, "MISSING"), ires.get(cid, "MISSING")
            if i.startswith("SKIP"):
                continue
            if nontrivial is None or nontrivial(rest, m):
                self.nontrivial.add(rest)
            if not compare_line(m, i, profile):
                nfail += 1
                self.failures.append({"correspondence": name, "case": rest, "model": m, "impl": i,
                                      "build": f"{build}/{profile}"})
        if len(self.samples) < 12:
            for line in cases[:3]:
                cid, _, rest = line.partition(" ")
                self.samples.append({"case": rest[:300], "model": mres.get(cid, "")[:200], "impl": ires.get(cid, "")[:200]})
        self.stats[name + "/" + build + "/" + profile] = {"cases": len(cases), "disagreements": nfail}
        self.runs.append((name, cases, ires, model_driver, f"{build}/{profile}"))
        self.log(f"correspondence {name} [{build}/{profile}]: {len(cases)} cases, {nfail} disagreements")

    def spec_search(self):
        """A proof obligation or the tie broke but model and implementation still agree on every
        case: search for a concrete failing input by comparing the implementation with the
        SPECIFICATION-only machine (Model/SpecMachine.v, independent of the generated formulas and
        of the implementation models) on every history case that ran."""
        n = 0
        for name, cases, ires, drv, build in self.runs:
            scases, orig = [], {}
            for line in cases:
                t = line.split(" ")
                if len(t) > 2 and t[1] == "H":
                    scases.append(" ".join([t[0], "S"] + t[2:]))
                    orig[t[0]] = line.partition(" ")[2]
            if not scases or drv is None:
                continue
            sres = run_model(drv, scases)
            for cid, rest in orig.items():
                s_, i_ = sres.get(cid, "UNSUPPORTED"), ires.get(cid, "MISSING")
                if "UNSUPPORTED" in s_ or s_.startswith("CRASH") or "PANIC" in i_ or i_.startswith("SKIP") or i_ == "MISSING":
                    continue
                n += 1
                if s_.split() != i_.split():
                    self.failures.append({"correspondence": name + " (search: implementation vs specification machine)",
                                          "case": rest, "model": s_, "impl": i_, "build": build,
                                          "oracle": "Model/SpecMachine.v spec_run_case"})
        self.log("search against the specification machine: %d cases compared, %d failing inputs" % (n, len(self.failures)))
        self.stats["search/spec-machine"] = {"cases": n, "disagreements": len(self.failures)}

    def finish(self, mod):
        pid = self.pid
        if (self.broken and not self.failures) or (self.tier == "thorough" and not self.failures):
            # search for a failing input when something broke; in the thorough tier always, as a second, independent
            # comparison of the implementation with the specification-only machine
            self.spec_search()
            if hasattr(mod, "search"):      # property-specific search for a concrete failing input
                mod.search(self)
        known = known_findings(pid)
        violations = 0
        rc = 0
        reported = set()
        classify = getattr(mod, "classify", lambda f: None)
        for f in self.failures:
            key = classify(f)
            hit = [k for k in known if key is not None and k[0] == key]
            if hit:
                if key not in reported:
                    print(f"KNOWN-FINDING: property={pid} {hit[0][1]}")
                    reported.add(key)
                continue
            if violations < 5:
                f2 = dict(f)
                f2.update({"property": pid, "tier": self.tier, "seed": self.seed, "broken": self.broken,
                           "note": "model line is the proven specification value when the proofs are intact; "
                                   "replay: ./check %s replay <this file>" % pid})
                path = write_replay(pid, f2)
                print(f"VIOLATION property={pid} replay={path}")
            violations += 1
            rc = 1
        if self.broken and not violations:
            # proof or tie broke and no concrete failing input was found
            path = write_replay(pid, {"property": pid, "tier": self.tier, "seed": self.seed,
                                      "broken": self.broken, "failing_input": None,
                                      "coq_log_tail": getattr(self, "coq_log", "")[-3000:]})
            print(f"VIOLATION property={pid} replay={path} no-failing-input-found")
            violations += 1
            rc = 1
        elif self.broken:
            for b in self.broken:
                print(f"BROKEN property={pid} {b[:300]}")
        au = self.audit
        cov = {
            "obligations": max(1, au["obligations"]),
            "discharged": au["discharged"],
            "checker_cmd": "make -C coq Props/%s.vo && coqc Props/%s.v (Print Assumptions audit) "
                           "[coq_makefile full .vo build, Coq 8.16.1]" % (pid, pid),
            "trusted_base": TRUSTED_BASE + list(getattr(mod, "TRUSTED_EXTRA", [])),
            "theorems": au["theorems"],
            "axioms_reported": au["axioms"],
            "evaluations": self.evaluations,
            "distinct_nontrivial": len(self.nontrivial),
            "rule": getattr(mod, "RULE", ""),
            "samples": self.samples[:12] or [{"note": "no correspondence cases ran"}],
            "correspondence": self.stats,
            "translator": {"read_sha256": self.gen.get("read", {}), "generated_sha256": self.gen.get("generated", {}),
                           "errors": self.gen.get("errors", [])},
            "broken": self.broken,
            "modelled_not_verified": getattr(mod, "MODELLED", []),
        }
        cov.update(getattr(self, "extra_cov", {}))
        if hasattr(self, "coqchk_cov"):
            cov["coqchk"] = self.coqchk_cov
        write_evidence(pid, self.tier, self.seed, "proof", cov, getattr(mod, "ASSUMPTIONS", []),
                       time.time() - self.t0, violations)
        return rc


if __name__ == "__main__":
    sys.exit(main())
