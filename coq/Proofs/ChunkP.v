(* The chunk lemma: feeding a chunk's bytes to the ChunkState model in any
   number of update calls yields the specification's chunk Output; no assertion,
   index or u8 overflow check in ChunkState::{update, fill_buf} can fail. *)
From V Require Import Proofs.ListP.
From V Require Import Base.Res Base.Word Base.MachInt gen.GenConsts gen.GenFormulas
  Spec.Compress Spec.Tree Model.Portable Model.Platform Model.RsChunk.
Open Scope N_scope.

Section ChunkProof.
  Variable c8 : list N -> list N -> N -> N -> N -> list N.
  Variable p : platform.
  Hypothesis Hcip : forall cv b bl c f, length cv = 8%nat -> length b = 64%nat ->
    p_compress_in_place p cv b bl c f = c8 cv b bl c f.
  Hypothesis Hc8len : forall cv b bl c f, length cv = 8%nat -> length b = 64%nat ->
    length (c8 cv b bl c f) = 8%nat.
  Variables (K : list N) (F T : N).
  Hypothesis HK : length K = 8%nat.

  (* cv and first-flag after compressing n full blocks from the front of bs *)
  Fixpoint cvfold (n : nat) (cv : list N) (first : bool) (bs : list N) : list N * bool :=
    match n with
    | O => (cv, first)
    | S n' => cvfold n' (c8 cv (take 64 bs) 64 T (N.lor F (start_flag first))) false (drop 64 bs)
    end.

  Definition final (st : list N * bool) (rest : list N) : output :=
    mkOutput (fst st) (pad64 rest) (len rest) T (N.lor (N.lor F (start_flag (snd st))) CHUNK_END).

  Lemma chunk_go_cvfold : forall (nb fuel : nat) cv first bs,
    (nb < fuel)%nat ->
    64 * N.of_nat nb <= len bs <= 64 * N.of_nat nb + 64 ->
    (nb <> 0%nat -> 64 * N.of_nat nb < len bs) ->
    chunk_go c8 fuel F T cv first bs = final (cvfold nb cv first bs) (drop (64 * N.of_nat nb) bs).
  Proof.
    induction nb as [|nb IH]; intros fuel cv first bs Hf Hl Hnz.
    - destruct fuel as [|fuel]; [lia|]. cbn [chunk_go cvfold].
      replace (len bs <=? 64) with true by lia. reflexivity.
    - destruct fuel as [|fuel]; [lia|]. cbn [chunk_go cvfold].
      specialize (Hnz ltac:(lia)).
      replace (len bs <=? 64) with false by lia.
      rewrite (IH fuel); try lia.
      + rewrite drop_drop. f_equal. f_equal. lia.
      + rewrite len_drop. lia.
      + rewrite len_drop. lia.
  Qed.

  Lemma cvfold_snd n : forall cv first bs, snd (cvfold n cv first bs) = match n with O => first | _ => false end.
  Proof.
    induction n as [|n IH]; intros; [reflexivity|]. cbn [cvfold]. rewrite IH. destruct n; reflexivity.
  Qed.

  Lemma cvfold_S_end n : forall cv first bs,
    cvfold (S n) cv first bs =
    (c8 (fst (cvfold n cv first bs)) (take 64 (drop (64 * N.of_nat n) bs)) 64 T
        (N.lor F (start_flag (snd (cvfold n cv first bs)))), false).
  Proof.
    induction n as [|n IH]; intros cv first bs.
    - reflexivity.
    - change (cvfold (S (S n)) cv first bs) with
        (cvfold (S n) (c8 cv (take 64 bs) 64 T (N.lor F (start_flag first))) false (drop 64 bs)).
      rewrite IH. cbn [cvfold]. rewrite drop_drop.
      replace (64 + 64 * N.of_nat n) with (64 * N.of_nat (S n)) by lia. reflexivity.
  Qed.

  Lemma cvfold_app n : forall cv first bs ext,
    64 * N.of_nat n <= len bs -> cvfold n cv first (bs ++ ext) = cvfold n cv first bs.
  Proof.
    induction n as [|n IH]; intros cv first bs ext H; [reflexivity|].
    cbn [cvfold]. rewrite take_app_le by lia. rewrite drop_app_le by lia.
    apply IH. rewrite len_drop. lia.
  Qed.

  Lemma cvfold_len n : forall cv first bs,
    length cv = 8%nat -> 64 * N.of_nat n <= len bs -> length (fst (cvfold n cv first bs)) = 8%nat.
  Proof.
    induction n as [|n IH]; intros cv first bs Hcv Hl; [exact Hcv|].
    cbn [cvfold]. apply IH.
    - apply Hc8len; [exact Hcv|]. pose proof (len_take 64 bs) as H. unfold len in *. lia.
    - rewrite len_drop. lia.
  Qed.

  (* the representation relation: cs has absorbed bs, nb blocks compressed *)
  Definition Repr (cs : chunk_state) (bs : list N) (nb : nat) : Prop :=
    cs = mkCS (fst (cvfold nb K true bs)) T (pad64 (drop (64 * N.of_nat nb) bs))
              (len bs - 64 * N.of_nat nb) (N.of_nat nb) F /\
    64 * N.of_nat nb <= len bs <= 64 * N.of_nat nb + 64 /\ len bs <= 1024.

  Definition Tight (cs : chunk_state) (bs : list N) : Prop :=
    exists nb, Repr cs bs nb /\ (bs = [] /\ nb = 0%nat \/ 64 * N.of_nat nb < len bs).

  Lemma Tight_new : Tight (cs_new K T F) [].
  Proof.
    exists 0%nat. split; [|left; auto]. split; [|unfold len; cbn [length]; lia]. reflexivity.
  Qed.

  Lemma pad64_split d : len d <= 64 ->
    pad64 d = d ++ repeat 0 (N.to_nat (64 - len d)).
  Proof. intros H. unfold pad64. f_equal. f_equal. unfold len in *. lia. Qed.

  Lemma fill_buf_spec cs bs nb input :
    Repr cs bs nb -> len (bs ++ input) <= 1024 ->
    let take_n := N.min (64 - (len bs - 64 * N.of_nat nb)) (len input) in
    exists cs', cs_fill_buf cs input = Ok (cs', drop take_n input) /\
                Repr cs' (bs ++ take take_n input) nb.
  Proof.
    intros [-> [Hl H1024]] Hin take_n.
    unfold cs_fill_buf. cbn [cs_buf_len cs_buf cs_cv cs_ctr cs_blocks cs_flags].
    change rs_BLOCK_LEN with 64.
    set (bl := len bs - 64 * N.of_nat nb) in *.
    assert (Hbl : bl <= 64) by (unfold bl; lia).
    unfold mi_sub. replace (bl <=? 64) with true by lia. cbn [bind].
    fold (len input). unfold nlen. fold (len input). fold take_n.
    set (d := drop (64 * N.of_nat nb) bs).
    assert (Hd : len d = bl) by (unfold d; rewrite len_drop; reflexivity).
    fold (len (pad64 d)). rewrite pad64_length by lia.
    replace (bl <=? 64) with true by lia. cbn [check bind].
    assert (Htk : take_n <= 64 - bl) by (unfold take_n; lia).
    replace (take_n <=? 64 - bl) with true by lia. cbn [check bind].
    unfold mi_add, fits. replace (bl + take_n <? 2 ^ 8) with true by (change (2 ^ 8) with 256; lia).
    cbn [bind].
    eexists. split; [reflexivity|].
    split; [|rewrite len_app, len_take; rewrite len_app in Hin; fold take_n; lia].
    rewrite cvfold_app by lia.
    f_equal.
    - rewrite drop_app_le by lia. fold d.
      rewrite !firstn_N, !skipn_N.
      rewrite (pad64_split d) by lia. rewrite Hd.
      rewrite take_app_ge by lia. rewrite Hd, N.sub_diag, take_0, app_nil_r.
      rewrite drop_app_ge by lia. rewrite Hd.
      rewrite (pad64_split (d ++ take take_n input)) by (rewrite len_app, len_take, Hd; lia).
      rewrite <- app_assoc. f_equal. f_equal.
      unfold drop. rewrite skipn_repeat. f_equal. rewrite len_app, len_take, Hd. lia.
    - rewrite len_app, len_take. fold take_n. unfold bl. lia.
  Qed.

  (* compressing the full buffer *)
  Lemma compress_buf_spec cs bs nb :
    Repr cs bs nb -> len bs = 64 * N.of_nat nb + 64 ->
    Repr (mkCS (p_compress_in_place p (cs_cv cs) (cs_buf cs) 64 (cs_ctr cs) (N.lor (cs_flags cs) (cs_start_flag cs)))
               (cs_ctr cs) zero_block 0 (cs_blocks cs + 1) (cs_flags cs)) bs (S nb).
  Proof.
    intros [-> [Hl H1024]] Hfull.
    cbn [cs_buf_len cs_buf cs_cv cs_ctr cs_blocks cs_flags].
    split; [|lia].
    assert (Hd : len (drop (64 * N.of_nat nb) bs) = 64) by (rewrite len_drop; lia).
    rewrite cvfold_S_end. cbn [fst]. rewrite Hcip.
    2:{ apply cvfold_len; [exact HK|lia]. }
    2:{ rewrite pad64_full by exact Hd. unfold len in Hd. lia. }
    f_equal.
    - f_equal.
      + rewrite take_all by lia. rewrite pad64_full by exact Hd. reflexivity.
      + unfold cs_start_flag. cbn [cs_blocks]. rewrite cvfold_snd.
        destruct nb; reflexivity.
    - rewrite drop_all by lia. reflexivity.
    - lia.
    - lia.
  Qed.

  (* one iteration of the `while input.len() > BLOCK_LEN` loop *)
  Lemma compress_input_spec cs bs nb input :
    Repr cs bs nb -> len bs = 64 * N.of_nat nb -> 64 < len input -> len (bs ++ input) <= 1024 ->
    Repr (mkCS (p_compress_in_place p (cs_cv cs) (take 64 input) 64 (cs_ctr cs) (N.lor (cs_flags cs) (cs_start_flag cs)))
               (cs_ctr cs) (cs_buf cs) (cs_buf_len cs) (cs_blocks cs + 1) (cs_flags cs))
         (bs ++ take 64 input) (S nb).
  Proof.
    intros [-> [Hl H1024]] Hfull Hin Htot.
    cbn [cs_buf_len cs_buf cs_cv cs_ctr cs_blocks cs_flags].
    rewrite len_app in Htot.
    assert (Hlen : len (bs ++ take 64 input) = 64 * N.of_nat nb + 64) by (rewrite len_app, len_take; lia).
    split; [|lia].
    rewrite cvfold_S_end. cbn [fst]. rewrite Hcip.
    2:{ apply cvfold_len; [exact HK|lia]. }
    2:{ pose proof (len_take 64 input) as Ht. unfold len in *. lia. }
    rewrite cvfold_app by lia.
    f_equal.
    - f_equal.
      + rewrite drop_app_ge by lia. replace (64 * N.of_nat nb - len bs) with 0 by lia.
        rewrite drop_0, take_take. f_equal.
      + unfold cs_start_flag. cbn [cs_blocks]. rewrite cvfold_snd. destruct nb; reflexivity.
    - rewrite (drop_all _ bs) by lia. rewrite drop_all by lia. reflexivity.
    - lia.
    - lia.
  Qed.

  Lemma update_loop_spec : forall fuel cs bs nb input,
    Repr cs bs nb -> len bs = 64 * N.of_nat nb -> len (bs ++ input) <= 1024 ->
    (N.to_nat (len input / 64) < fuel)%nat ->
    exists cs' nb' k,
      cs_update_loop fuel p cs input = Ok (cs', drop k input) /\
      Repr cs' (bs ++ take k input) nb' /\ len (bs ++ take k input) = 64 * N.of_nat nb' /\
      k <= len input /\ len input - k <= 64 /\ (0 < len input -> 0 < len input - k).
  Proof.
    induction fuel as [|fuel IH]; intros cs bs nb input HR Hfull Htot Hfuel; [lia|].
    cbn [cs_update_loop]. unfold nlen. fold (len input). change rs_BLOCK_LEN with 64.
    destruct (len input <=? 64) eqn:E.
    - exists cs, nb, 0. rewrite drop_0, take_0, app_nil_r. split; [reflexivity|]. split; [exact HR|]. lia.
    - pose proof (compress_input_spec cs bs nb input HR Hfull ltac:(lia) Htot) as HR'.
      destruct HR as [Hcs [Hl H1024]].
      assert (Hbl : cs_buf_len cs = 0) by (rewrite Hcs; cbn [cs_buf_len]; lia).
      rewrite Hbl. cbn [N.eqb check bind]. change (0 =? 0) with true. cbn [check bind].
      assert (Hblk : cs_blocks cs = N.of_nat nb) by (rewrite Hcs; reflexivity).
      unfold mi_add, fits. rewrite Hblk.
      rewrite len_app in Htot.
      replace (N.of_nat nb + 1 <? 2 ^ 8) with true by (change (2 ^ 8) with 256; lia).
      cbn [bind]. rewrite <- Hblk. rewrite !firstn_N, !skipn_N.
      destruct (IH _ (bs ++ take 64 input) (S nb) (drop 64 input) HR') as (cs' & nb' & k & Hrun & HR'' & Hlen'' & Hk1 & Hk2 & Hk3).
      + rewrite len_app, len_take. lia.
      + rewrite len_app, len_app, len_take, len_drop. lia.
      + rewrite len_drop. lia.
      + exists cs', nb', (64 + k). rewrite len_drop in *.
        rewrite drop_drop in Hrun. rewrite Hbl in Hrun. split; [exact Hrun|].
        assert (Ht : take 64 input ++ take k (drop 64 input) = take (64 + k) input).
        { rewrite <- (take_drop 64 (take (64 + k) input)). rewrite take_take.
          replace (N.min 64 (64 + k)) with 64 by lia. f_equal.
          rewrite take_drop_comm. reflexivity. }
        rewrite <- app_assoc, Ht in HR'', Hlen''.
        split; [exact HR''|]. lia.
  Qed.

  Lemma Repr_count cs bs nb : Repr cs bs nb -> cs_count cs = Ok (len bs).
  Proof.
    intros [-> [Hl H1024]]. unfold cs_count, rs_chunk_count. cbn [cs_blocks cs_buf_len].
    unfold mb, mu, mi_cast, mi_mul, mi_add, fits. cbn [bind].
    change rs_BLOCK_LEN with 64.
    rewrite !N.land_ones.
    rewrite (N.mod_small (N.of_nat nb)) by (change (2 ^ 64) with 18446744073709551616; lia).
    rewrite (N.mod_small (len bs - _)) by (change (2 ^ 64) with 18446744073709551616; lia).
    replace (64 * N.of_nat nb <? 2 ^ 64) with true by (change (2 ^ 64) with 18446744073709551616; lia).
    cbn [bind].
    replace (64 * N.of_nat nb + (len bs - 64 * N.of_nat nb) <? 2 ^ 64) with true
      by (change (2 ^ 64) with 18446744073709551616; lia).
    f_equal. lia.
  Qed.

  (* buffer empty on entry: loop, final fill, asserts *)
  Lemma update_tail_spec cs bs nb input :
    Repr cs bs nb -> len bs = 64 * N.of_nat nb -> len (bs ++ input) <= 1024 ->
    (0 < len input \/ bs = []) ->
    exists cs', cs_update_tail p cs input = Ok cs' /\ Tight cs' (bs ++ input).
  Proof.
    intros HR Hfull Htot Hne. unfold cs_update_tail.
    destruct (update_loop_spec (S (Nat.div (length input) 64)) cs bs nb input HR Hfull Htot)
      as (cs1 & nb1 & k & Hrun & HR1 & Hlen1 & Hk1 & Hk2 & Hk3).
    { unfold len. rewrite N2Nat.inj_div, Nat2N.id. change (N.to_nat 64) with 64%nat. lia. }
    rewrite Hrun. cbn [bind].
    destruct (fill_buf_spec cs1 (bs ++ take k input) nb1 (drop k input) HR1) as (cs2 & Hfill & HR2).
    { rewrite <- app_assoc, take_drop. exact Htot. }
    rewrite Hlen1, N.sub_diag, N.sub_0_r, len_drop in Hfill, HR2.
    replace (N.min 64 (len input - k)) with (len input - k) in Hfill, HR2 by lia.
    rewrite Hfill. cbn [bind].
    assert (Hrest : drop (len input - k) (drop k input) = []).
    { apply drop_all. rewrite len_drop. lia. }
    rewrite Hrest. change (nlen [] =? 0) with true. cbn [check bind].
    assert (Hall : (bs ++ take k input) ++ take (len input - k) (drop k input) = bs ++ input).
    { rewrite <- app_assoc. f_equal. rewrite (take_all _ (drop k input)) by (rewrite len_drop; lia).
      apply take_drop. }
    rewrite Hall in HR2.
    rewrite (Repr_count _ _ _ HR2). cbn [bind]. change rs_CHUNK_LEN with 1024.
    replace (len (bs ++ input) <=? 1024) with true by lia. cbn [check bind].
    exists cs2. split; [reflexivity|]. exists nb1. split; [exact HR2|].
    rewrite len_app in Hlen1. rewrite len_take in Hlen1. rewrite len_app.
    destruct Hne as [Hpos| ->].
    - right. lia.
    - destruct (N.eq_dec (len input) 0) as [Hz|Hnz].
      + left. apply len_0_nil in Hz. subst input. split; [reflexivity|].
        change (len []) with 0 in Hlen1. lia.
      + right. change (len []) with 0 in *. lia.
  Qed.

  Theorem cs_update_spec cs bs input :
    Tight cs bs -> len (bs ++ input) <= 1024 ->
    exists cs', cs_update p cs input = Ok cs' /\ Tight cs' (bs ++ input).
  Proof.
    intros (nb & HR & Ht) Htot. unfold cs_update.
    assert (Hbl : cs_buf_len cs = len bs - 64 * N.of_nat nb) by (destruct HR as [-> _]; reflexivity).
    destruct Ht as [[-> ->]|Ht].
    - (* empty buffer, nothing absorbed *)
      rewrite Hbl. cbn [len length]. change (0 <? _) with false. cbn iota. cbn [bind].
      apply (update_tail_spec cs [] 0%nat input HR); [reflexivity|exact Htot|right; reflexivity].
    - replace (0 <? cs_buf_len cs) with true by lia. cbn iota.
      destruct (fill_buf_spec cs bs nb input HR Htot) as (cs1 & Hfill & HR1).
      set (t := N.min (64 - (len bs - 64 * N.of_nat nb)) (len input)) in *.
      rewrite Hfill. cbn [bind]. unfold nlen. fold (len (drop t input)). rewrite len_drop.
      destruct (len input - t =? 0) eqn:E; cbn [negb].
      + (* everything fitted in the buffer *)
        cbn [bind].
        assert (Hall : take t input = input) by (apply take_all; lia).
        rewrite Hall in HR1.
        assert (Hd : drop t input = []) by (apply drop_all; lia).
        rewrite Hd. unfold cs_update_tail. cbn [length Nat.div cs_update_loop].
        change (nlen [] <=? rs_BLOCK_LEN) with true. cbn iota. cbn [bind].
        destruct (fill_buf_spec cs1 (bs ++ input) nb [] HR1) as (cs2 & Hfill2 & HR2).
        { rewrite app_nil_r. exact Htot. }
        cbn [len length] in Hfill2, HR2. rewrite N.min_0_r in Hfill2, HR2.
        rewrite drop_0 in Hfill2. rewrite take_0, app_nil_r in HR2.
        rewrite Hfill2. cbn [bind]. change (nlen [] =? 0) with true. cbn [check bind].
        rewrite (Repr_count _ _ _ HR2). cbn [bind]. change rs_CHUNK_LEN with 1024.
        replace (len (bs ++ input) <=? 1024) with true by lia. cbn [check bind].
        exists cs2. split; [reflexivity|]. exists nb. split; [exact HR2|]. right. rewrite len_app. lia.
      + (* buffer full and more input: compress it, continue *)
        assert (Hfull : len (bs ++ take t input) = 64 * N.of_nat nb + 64).
        { rewrite len_app, len_take. destruct HR as [_ [Hl _]]. lia. }
        assert (Hbl1 : cs_buf_len cs1 = 64).
        { destruct HR1 as [-> _]. cbn [cs_buf_len]. lia. }
        rewrite Hbl1. change (64 =? rs_BLOCK_LEN) with true. cbn [check bind].
        pose proof (compress_buf_spec cs1 _ nb HR1 Hfull) as HR2.
        assert (Hblk : cs_blocks cs1 = N.of_nat nb) by (destruct HR1 as [-> _]; reflexivity).
        unfold mi_add, fits. rewrite Hblk.
        destruct HR as [_ [Hl H1024]].
        replace (N.of_nat nb + 1 <? 2 ^ 8) with true by (change (2 ^ 8) with 256; lia).
        cbn [bind]. rewrite <- Hblk. change rs_BLOCK_LEN with 64.
        destruct (update_tail_spec _ (bs ++ take t input) (S nb) (drop t input) HR2) as (cs3 & Hrun & HT).
        * lia.
        * rewrite <- app_assoc, take_drop. exact Htot.
        * left. rewrite len_drop. lia.
        * rewrite <- app_assoc, take_drop in HT. exists cs3. split; assumption.
  Qed.

  Theorem cs_output_spec cs bs :
    Tight cs bs -> cs_output cs = chunk_output c8 K F T bs.
  Proof.
    intros (nb & [-> [Hl H1024]] & Ht). unfold cs_output, chunk_output.
    cbn [cs_buf_len cs_buf cs_cv cs_ctr cs_blocks cs_flags].
    rewrite (chunk_go_cvfold nb 16).
    - unfold final. rewrite cvfold_snd. rewrite len_drop. f_equal.
      unfold cs_start_flag. cbn [cs_blocks]. destruct nb; reflexivity.
    - lia.
    - lia.
    - intros Hnz. destruct Ht as [[_ ->]|Ht]; [contradiction|exact Ht].
  Qed.
End ChunkProof.
