"""C08: multithreaded update (update_rayon / update_tbb) equals serial update for every join schedule."""
import itertools
import os
import sys

from props.common import Rng, bspec, hexspec, TEST_KEY
from props.hist import PLATFORMS, DEG, history

sys.path.insert(0, os.path.dirname(os.path.dirname(os.path.abspath(__file__))))
import charness  # noqa: E402
import verif  # noqa: E402

RULE = ("join schedules of Hasher::update_with_join / blake3_hasher_update_tbb: the recursion splits whenever a level has "
        "more than simd_degree chunks; each internal node (join) is scheduled left-first / right-first / on two real "
        "threads by a script (Rust: cfg-gated ScriptedJoin hook; C: harness/c/tbbseam.c implementing the "
        "blake3_compress_subtree_wide_join_tbb seam).  For every forced platform, inputs (fresh and pre-loaded hashers) "
        "whose updates perform k = 1..5 joins get ALL 3^k scripts (k computed by the generator and checked against the "
        "join count the hook reports); inputs up to 2 MiB get random scripts.  Every run is compared with the model "
        "(which defines us/uy/ut as plain update) on the observations count / finalize / xof / further update / "
        "finalize after it; multi-step histories in which every update goes through update_rayon / a random script, or "
        "starts with update_mmap_rayon / update_mmap on a real file and then continues; the C runs additionally compare the raw hasher struct with a serially updated twin (cmp).  "
        "Real update_rayon (uy) runs under rayon pools of 1, 2, 3, 8, 16 threads.  Thorough: the C seam under TSan.  "
        "Non-trivial = distinct (input, script) whose script contains a right-first or two-thread choice on an update "
        "with at least one join.")
MODELLED = ["rayon::join / oneTBB task_group: modelled by their contract (both closures run to completion exactly once "
            "before join returns, in any order or concurrently); explored through the scripted seams and real pools",
            "the closures write disjoint output arrays and read shared immutable inputs (checked by TSan on the C side)"]
ASSUMPTIONS = ["rayon_core::join / tbb::parallel_invoke run both closures exactly once and join before returning"]
TRUSTED_EXTRA = ["src/join.rs ScriptedJoin hook (cfg blake3_team_blake3_verif) and harness/c/tbbseam.c"]

CHUNK = 1024
POOLS = [1, 2, 3, 8, 16]


def lp2(n):
    return 1 << (n.bit_length() - 1)


def wide_joins(L, d):
    """joins of compress_subtree_wide on L bytes at SIMD degree d"""
    if L <= d * CHUNK:
        return 0
    left = lp2((L - 1) // CHUNK) * CHUNK
    return 1 + wide_joins(left, d) + wide_joins(L - left, d)


def update_joins(T, L, d):
    """joins performed by update(L bytes) on a hasher that has absorbed T bytes (mirror of update_with_join's loop)"""
    if T == 0:
        c, p = 0, 0
    else:
        c = (T - 1) // CHUNK
        p = T - c * CHUNK
    k = 0
    if p > 0:
        take = min(CHUNK - p, L)
        L -= take
        if L == 0:
            return 0
        c += 1
    while L > CHUNK:
        sub = lp2(L)
        while (sub - 1) & (c * CHUNK):
            sub //= 2
        if sub > CHUNK:
            k += wide_joins(sub, d)
        c += sub // CHUNK
        L -= sub
    return k


def modes(rng):
    return ["hash", "keyed=" + hexspec(TEST_KEY), "derive=" + hexspec(b"C08 join schedules"),
            "keyed=prng/%d/32" % rng.below(1 << 20)]


def continuation(rng, d):
    extra = rng.choice([0, 1, 63, 1024, 1025, 3000, d * CHUNK + 1])
    return ["c:0", "f:0", "x:0:%d" % rng.choice([1, 64, 65, 131, 200]), "u:0:" + bspec(rng, extra), "c:0", "f:0"]


class Inp:
    """one input: model line once, many implementation variants"""

    def __init__(self, mode, plat, T, L, rng):
        self.mode, self.plat, self.T, self.L = mode, plat, T, L
        self.d = DEG[plat]
        self.k = update_joins(T, L, self.d)
        self.pre = bspec(rng, T) if T else None
        self.b = bspec(rng, L)
        self.cont = continuation(rng, self.d)

    def line(self, op):
        ops = (["u:0:" + self.pre] if self.pre else []) + [op] + self.cont
        return "H %s %s %s" % (self.mode, self.plat, " ".join(ops))

    def model(self):
        return self.line("u:0:" + self.b)

    def us(self, script):
        return self.line("us:0:%s:%s" % (self.b, script))

    def usc(self):
        ops = (["u:0:" + self.pre] if self.pre else []) + ["usc:0:%s:" % self.b]
        return "H %s %s %s" % (self.mode, self.plat, " ".join(ops))

    def uy(self):
        return self.line("uy:0:" + self.b)

    # C side: instance 0 gets update_tbb with the script, instance 1 the plain update; raw structs compared
    def c_mode(self):
        return self.mode.replace("derive=", "deriveraw=")

    def ut(self, script):
        ops = ["n"]
        if self.pre:
            ops += ["u:0:" + self.pre, "u:1:" + self.pre]
        ops += ["ut:0:%s:%s" % (self.b, script), "u:1:" + self.b, "cmp:0:1"]
        # continuation in the C grammar: finalize(32), finalize(n), further update, finalize
        for o in self.cont:
            f = o.split(":")
            if f[0] == "f":
                ops.append("f:0:32")
            elif f[0] == "x":
                ops.append("f:0:%s" % f[2])
            elif f[0] == "u":
                ops += ["u:0:" + f[2], "u:1:" + f[2], "cmp:0:1"]
        return "CH %s %s %s" % (self.c_mode(), self.plat, " ".join(ops))

    def c_model(self):
        ops = (["u:0:" + self.pre] if self.pre else []) + ["u:0:" + self.b]
        for o in self.cont:
            f = o.split(":")
            if f[0] == "f":
                ops.append("x:0:32")
            elif f[0] in ("x", "u"):
                ops.append(o)
        return "H %s %s %s" % (self.mode, self.plat, " ".join(ops))


def small_inputs(rng, tier):
    """per platform: for each k in 1..5 some (T, L) with exactly k joins"""
    out = []
    per_k = 3 if tier == "thorough" else 1
    ms = modes(rng)
    for plat in PLATFORMS:
        d = DEG[plat]
        U = d * CHUNK
        cands = []
        for T in (0, 1, CHUNK, U, 2 * U, 3 * U, 2 * U + 513, 4 * U, 6 * U):
            for L in (2 * U, 2 * U + 1, 3 * U, 4 * U - 1, 4 * U, 4 * U + 1, 5 * U + 7, 6 * U, 6 * U + 1, 7 * U + 1000,
                      8 * U - 1, U + CHUNK + 1, 2 * U + CHUNK, 7 * U, 8 * U, 8 * U + 1):
                k = update_joins(T, L, d)
                if 1 <= k <= 5:
                    cands.append((k, T + L, T, L))
        for k in range(1, 6):
            ck = sorted(c for c in cands if c[0] == k)
            # the smallest one, plus (thorough) some others incl. a pre-loaded hasher
            pick = ck[:1] + [c for c in ck[1:] if c[2] > 0][: per_k - 1 if per_k > 1 else (1 if k in (2, 5) else 0)]
            for (_, _, T, L) in pick:
                out.append(Inp(ms[len(out) % len(ms)], plat, T, L, rng))
    return out


def large_inputs(rng, tier):
    out = []
    ms = modes(rng)
    if tier == "thorough":
        sizes = [(p, n) for p in PLATFORMS for n in (100000, 262144 + 77, (1 << 20) + 1, 2 << 20)]
        sizes += [(rng.choice(PLATFORMS), rng.range(40000, 2 << 20)) for _ in range(10)]
    else:
        sizes = [("portable", 70001), ("sse2", 200000), ("sse41", 262144 + 77), ("avx2", (1 << 20) + 1),
                 ("avx512", 2 << 20), ("avx512", 300000), ("avx2", 131073)]
    for plat, n in sizes:
        T = rng.choice([0, 0, 1, 1024, 5000])
        out.append(Inp(ms[len(out) % len(ms)], plat, T, n, rng))
    return out


def compare(ctx, name, label, lines, meta, res, mres, strip=(), profile="debug"):
    """meta[cid] = (input index, rest of the implementation line); mres[input index] = model result"""
    nfail = nskip = 0
    for cid, (j, rest, key) in meta.items():
        r = res.get(cid, "MISSING")
        ctx.evaluations += 1
        if r.startswith("SKIP"):
            nskip += 1
            continue
        if key:
            ctx.nontrivial.add(key)
        toks = [t for t in r.split() if t not in strip]
        if not verif.compare_line(mres[j], " ".join(toks), profile) or "diff" in r.split() or \
                any(t in r.split() for t in ("FAULT", "ABORT", "oob", "PANIC")) or r.startswith(("CRASH", "MISSING")):
            nfail += 1
            ctx.failures.append({"correspondence": name, "case": rest, "model": mres[j][:400], "impl": r[:400],
                                 "build": label})
    if len(ctx.samples) < 12 and meta:
        cid = next(iter(meta))
        ctx.samples.append({"case": meta[cid][1][:300], "build": label, "model": mres[meta[cid][0]][:160],
                            "impl": res.get(cid, "")[:160]})
    ctx.stats[name + "/" + label] = {"cases": len(meta), "skipped": nskip, "disagreements": nfail}
    ctx.log("%s [%s]: %d cases, %d skipped, %d disagreements" % (name, label, len(meta), nskip, nfail))


def scripts_for(inp, rng, exhaustive, nrand):
    if exhaustive:
        return ["".join(s) for s in itertools.product("012", repeat=inp.k)]
    out = ["", "1" * inp.k, "2" * min(inp.k, 64)]
    for _ in range(nrand):
        out.append("".join(rng.choice("012") for _ in range(min(inp.k, rng.choice([inp.k, inp.k, 8, 40])))))
    return out


def script_key(inp, s, side):
    return "%s %s %d+%d %s" % (side, inp.plat, inp.T, inp.L, s) if inp.k >= 1 and ("1" in s or "2" in s) else None


def correspondence(ctx):
    drv = ctx.need_model()
    if drv is None:
        return
    rng = Rng(ctx.seed * 31337 + 11)
    thorough = ctx.tier == "thorough"
    small = small_inputs(rng, ctx.tier)
    large = large_inputs(rng, ctx.tier)
    inputs = small + large
    nsmall = len(small)
    ctx.log("inputs: %d with k<=5 (all 3^k scripts), %d large (random scripts); model bytes %d" %
            (nsmall, len(large), sum(i.T + i.L for i in inputs)))
    mr = verif.run_model(drv, ["m%d %s" % (j, i.model()) for j, i in enumerate(inputs)])
    mres = [mr.get("m%d" % j, "MISSING") for j in range(len(inputs))]
    cm = verif.run_model(drv, ["m%d %s" % (j, i.c_model()) for j, i in enumerate(inputs)])
    cmres = [cm.get("m%d" % j, "MISSING") for j in range(len(inputs))]
    bad = [j for j, m in enumerate(mres) if not m or m.startswith(("MISSING", "CRASH")) or "PANIC" in m or "OUTOFFUEL" in m]
    if bad:
        ctx.broken.append("model failed on %d inputs, e.g. %s -> %s" % (len(bad), inputs[bad[0]].model()[:200], mres[bad[0]][:100]))

    # ---------------- (a) Rust ----------------
    builds = [("default", "debug")] + ([("default", "release"), ("prefer_intrinsics", "debug")] if thorough else [])
    variants = []     # (input index, script)
    for j, inp in enumerate(inputs):
        for s in scripts_for(inp, rng, j < nsmall, 12 if thorough else 5):
            variants.append((j, s))
    for flavour, profile in builds:
        b = ctx.need_harness(flavour, profile)
        if b is None:
            continue
        label = "rs-%s/%s" % (flavour, profile)
        # the generator's join count against the hook's own count
        lines = ["k%d %s" % (j, i.usc()) for j, i in enumerate(inputs)]
        res = verif.run_lines(b, lines)
        wrong = [(inputs[j].usc()[:120], res.get("k%d" % j), inputs[j].k) for j in range(len(inputs))
                 if res.get("k%d" % j, "").split() != [str(inputs[j].k)]]
        ctx.evaluations += len(lines)
        ctx.stats["join-count/" + label] = {"cases": len(lines), "disagreements": len(wrong)}
        ctx.log("join count (generator vs hook) [%s]: %d inputs, %d wrong" % (label, len(lines), len(wrong)))
        if wrong:
            ctx.broken.append("join count of the generator differs from the hook (exhaustiveness claim void): %s" % (wrong[:3],))
        # scripted joins
        lines, meta = [], {}
        for v, (j, s) in enumerate(variants):
            cid = "s%d" % v
            rest = inputs[j].us(s)
            lines.append(cid + " " + rest)
            meta[cid] = (j, rest, script_key(inputs[j], s, "rs"))
        res = verif.run_lines(b, lines)
        compare(ctx, "scripted-join", label, lines, meta, res, mres, profile=profile)
        # real rayon pools
        for n in POOLS:
            lines, meta = [], {}
            for j, inp in enumerate(inputs):
                cid = "y%d" % j
                lines.append(cid + " " + inp.uy())
                meta[cid] = (j, inp.uy(), None)
            res = verif.run_lines(b, lines, env={"RAYON_NUM_THREADS": str(n)})
            compare(ctx, "update_rayon", "%s/pool%d" % (label, n), lines, meta, res, mres, profile=profile)

        # multi-step histories in which EVERY update goes through update_rayon (real pool) or through
        # update_with_join with a random script: small updates (no join at all), updates that end on
        # subtree boundaries, clones, queries in between - against the model of the same history with
        # plain update (C08_update_history_schedule_independent)
        hrng = Rng(ctx.seed * 7919 + 5)
        hl, hmodel, hmeta = [], [], {}
        nh = 120 if thorough else 40
        for j in range(nh):
            plat = PLATFORMS[j % len(PLATFORMS)]
            mode = modes(hrng)[j % 4]
            ops = history(hrng, plat, hrng.range(3, 9), with_clone=True, with_reset=True, query_rate=0.35, maxchunks=24,
                          budget=64 * CHUNK)
            if j % 4 == 0:     # targeted: a whole power-of-two subtree, then a tail of at most one chunk, then observe
                d = DEG[plat]
                first = CHUNK * hrng.choice([2, 4, 8, d, 2 * d, 4 * d, 64])
                ops = ["u:0:" + bspec(hrng, first), "u:0:" + bspec(hrng, hrng.choice([1, 63, 64, 65, 1000, 1024])),
                       "c:0", "f:0", "x:0:131", "u:0:" + bspec(hrng, hrng.choice([0, 1, 1024, 3000])), "f:0"]
            if j % 4 == 2:     # update_mmap_rayon FIRST (mapped: >= 16 KiB; whole chunks with several one-bits in the
                               # chunk count, and general lengths), then MORE input, then observe
                n1 = hrng.choice([100 * CHUNK, 28 * CHUNK, 52 * CHUNK, 16 * CHUNK, 17 * CHUNK + 5, 97 * CHUNK, 4 * CHUNK])
                ops = ["u:0:" + bspec(hrng, n1), "c:0", "u:0:" + bspec(hrng, hrng.choice([1, 1024, 3000, 70 * CHUNK])),
                       "c:0", "f:0", "x:0:70", "u:0:" + bspec(hrng, hrng.choice([0, 5, 2048])), "f:0"]
            yops, sops = [], []
            first = True
            for o in ops:
                if o.startswith("u:") and j % 4 == 2 and first:
                    first = False
                    yops.append("umy:" + o[2:])
                    sops.append("um:" + o[2:])
                elif o.startswith("u:"):
                    yops.append("uy:" + o[2:])
                    sops.append("us:" + o[2:] + ":" + "".join(hrng.choice("012") for _ in range(hrng.range(0, 12))))
                else:
                    yops.append(o)
                    sops.append(o)
            hmodel.append("H %s %s %s" % (mode, plat, " ".join(ops)))
            for tag, oo in (("y", yops), ("s", sops)):
                cid = "h%s%d" % (tag, j)
                rest = "H %s %s %s" % (mode, plat, " ".join(oo))
                hl.append(cid + " " + rest)
                hmeta[cid] = (j, rest, "hist %s %d" % (tag, j))
        hm = verif.run_model(drv, ["m%d %s" % (j, l) for j, l in enumerate(hmodel)])
        hmres = [hm.get("m%d" % j, "MISSING") for j in range(len(hmodel))]
        for n in ([2, 16] if not thorough else POOLS):
            res = verif.run_lines(b, hl, env={"RAYON_NUM_THREADS": str(n)})
            compare(ctx, "rayon/scripted histories", "%s/pool%d" % (label, n), hl, hmeta, res, hmres, profile=profile)

    # ---------------- (b) C: update_tbb through the scripted seam ----------------
    cbuilds = [None] + (["tsan"] if thorough else [])
    for san in cbuilds:
        cb, log = charness.build("tbbseam", san)
        label = "c-tbbseam" + ("-" + san if san else "")
        if cb is None:
            ctx.broken.append("C harness build failed (%s): %s" % (label, log[-600:]))
            continue
        lines, meta = [], {}
        for v, (j, s) in enumerate(variants):
            if san and j < nsmall and len(s) == 5 and v % 9:
                continue        # TSan: a ninth of the 243-script families
            cid = "t%d" % v
            rest = inputs[j].ut(s)
            lines.append(cid + " " + rest)
            meta[cid] = (j, rest, script_key(inputs[j], s, "c"))
        errs = []
        res = charness.run(cb, lines, env={"C_GUARD": "1"}, stderr=errs)
        compare(ctx, "update_tbb-seam", label, lines, meta, res, cmres, strip=("same", "ok"))
        for ids, text in errs:
            ctx.failures.append({"correspondence": "sanitizer/stderr report", "case": "shard with ids " + ",".join(ids[:5]),
                                 "model": "", "impl": text[:1500], "build": label})
        ctx.stats["stderr/" + label] = {"cases": 1, "disagreements": len(errs)}
    ctx.extra_cov = {"inputs_exhaustive": [{"platform": i.plat, "absorbed_before": i.T, "update_len": i.L, "joins": i.k,
                                            "scripts": 3 ** i.k} for i in small],
                     "inputs_random": [{"platform": i.plat, "absorbed_before": i.T, "update_len": i.L, "joins": i.k}
                                       for i in large],
                     "rayon_pools": POOLS}


def classify(f):
    return None


def replay(path):
    import json
    f = json.load(open(path))
    print("case:", f.get("case"), "| build:", f.get("build"))
    print("recorded model:", f.get("model"))
    print("recorded impl :", f.get("impl"))
    return 0
