(* hash1 / hash_many of src/portable.rs and the Rust intrinsics files, hash_one_* / blake3_hash_many_* of the C files,
   as TRANSLATED statement by statement (gen/GenCascades.v), against the hand-written models:
   Portable.hash1 / hash_many (Model/Portable.v), hash1_rs / hash_one_c and the cascades hash_many_rs4 / _rs8 /
   hash_many_c4 / _c8 / _c16 (Model/Kernels.v).
   The `while` loops are fuel recursions; every theorem holds for EVERY fuel above the number of iterations the loop
   can make (the translated function and the model agree, and the result is not OutOfFuel).
   Each generated loop is tied by its unfolding equation (`*_loop_eq`, proved by `destruct fuel; reflexivity`): any change
   of a translated statement breaks that proof. *)
From Coq Require Import NArith List Bool Lia Arith.
From V Require Import Base.Res Base.Word Base.MachInt Base.Arr gen.GenConsts gen.GenFormulas gen.GenPortable
  gen.GenLibSmall gen.GenCHasherSmall gen.GenCascades Model.Portable Model.Kernels
  Proofs.GenPortableP Proofs.GenLibSmallP Proofs.GenCHasherSmallP.
Import ListNotations.
Open Scope N_scope.

(* ------------------------------------------------------------------ *)
(* arithmetic                                                          *)
(* ------------------------------------------------------------------ *)
Lemma div64_skip (l : list N) : (64 <= length l)%nat -> (length l / 64 = S (length (skipn 64 l) / 64))%nat.
Proof.
  intros H. rewrite skipn_length.
  replace (length l) with ((length l - 64) + 1 * 64)%nat at 1 by lia.
  rewrite Nat.div_add by discriminate. lia.
Qed.

Lemma c_wsub_small W a k : k <= a -> a < 2 ^ W -> c_wsub W a k = a - k.
Proof.
  intros H1 H2. unfold c_wsub. replace (a + 2 ^ W - k) with ((a - k) + 1 * 2 ^ W) by lia.
  rewrite N.mod_add by (apply N.pow_nonzero; discriminate). apply N.mod_small. lia.
Qed.

(* ------------------------------------------------------------------ *)
(* A. the block loop of the Rust hash1                                 *)
(* ------------------------------------------------------------------ *)
Lemma hash1_rs_go_fuel cip : forall f1 f2 cv input ctr fl bf fe,
  (length input / 64 < f1)%nat -> (length input / 64 < f2)%nat ->
  hash1_rs_go cip f1 cv input ctr fl bf fe = hash1_rs_go cip f2 cv input ctr fl bf fe.
Proof.
  induction f1 as [|f1 IH]; intros f2 cv input ctr fl bf fe H1 H2; [lia|].
  destruct f2 as [|f2]; [lia|]. cbn [hash1_rs_go]. change rs_BLOCK_LEN with 64.
  destruct (N.ltb_spec (N.of_nat (length input)) 64) as [Hl|Hl]; [reflexivity|].
  assert (L : (64 <= length input)%nat) by lia. pose proof (div64_skip input L) as D.
  change (N.to_nat 64) with 64%nat. apply IH; lia.
Qed.

Lemma hash1_rs_go_portable : forall fuel cv input ctr fl bf fe,
  hash1_rs_go Portable.compress_in_place fuel cv input ctr fl bf fe = hash1_go fuel cv input ctr fl bf fe.
Proof.
  induction fuel as [|fuel IH]; intros; [reflexivity|]. cbn [hash1_rs_go hash1_go].
  destruct (_ <? _); [reflexivity|]. apply IH.
Qed.

Section RsHash1.
  (* the callee as the translated loop sees it, and the model's compression *)
  Variable ext : list N -> list N -> N -> N -> N -> res (list N).
  Variable cip : cip_fn.
  (* the domain on which the callee is known to equal the model: invariants of cv, of a block, of the rest of the
     input, of the flags *)
  Variables (Icv Ib Ibs : list N -> Prop) (Ifl : N -> Prop).
  Hypothesis ext_ok : forall cv block ctr fl, Icv cv -> Ib block -> Ifl fl ->
    ext cv block rs_BLOCK_LEN ctr fl = Ok (cip cv block rs_BLOCK_LEN ctr fl).
  Hypothesis cv_step : forall cv block ctr fl, Icv cv -> Ib block -> Ifl fl -> Icv (cip cv block rs_BLOCK_LEN ctr fl).
  Hypothesis bs_step : forall s, Ibs s -> (64 <= length s)%nat -> Ib (firstn 64 s) /\ Ibs (skipn 64 s).
  Hypothesis fl_lor : forall a b, Ifl a -> Ifl b -> Ifl (N.lor a b).

  Variable loop : nat -> N -> list N -> list N -> N -> N -> N -> N -> list N -> N -> list N -> res (list N * N * list N).
  (* the text of the generated loop *)
  Hypothesis loop_eq : forall fuel gN input key counter flags flags_start flags_end cv block_flags slice,
    loop fuel gN input key counter flags flags_start flags_end cv block_flags slice =
    if (rs_BLOCK_LEN <=? (N.of_nat (length slice))) then
      match fuel with
      | O => OutOfFuel
      | S fuel =>
        block_flags <- (if ((N.of_nat (length slice)) =? rs_BLOCK_LEN) then
          let block_flags := (N.lor block_flags flags_end) in
          Ok block_flags
        else Ok block_flags) ;;
        assert! (rs_BLOCK_LEN <=? N.of_nat (length slice)) code 54 ;;
        cv <- ext cv (firstn (N.to_nat rs_BLOCK_LEN) slice) rs_BLOCK_LEN counter block_flags ;;
        let block_flags := flags in
        assert! (rs_BLOCK_LEN <=? N.of_nat (length slice)) code 40 ;;
        let slice := skipn (N.to_nat rs_BLOCK_LEN) slice in
        loop fuel gN input key counter flags flags_start flags_end cv block_flags slice
      end
    else Ok (cv, block_flags, slice).

  Lemma rs_hash1_loop_ok : forall fuel gN input key ctr flags fs fe cv bf slice,
    (length slice / 64 < fuel)%nat -> Icv cv -> Ibs slice -> Ifl flags -> Ifl fe -> Ifl bf ->
    exists bf' slice', loop fuel gN input key ctr flags fs fe cv bf slice
      = Ok (hash1_rs_go cip fuel cv slice ctr flags bf fe, bf', slice') /\ Icv (hash1_rs_go cip fuel cv slice ctr flags bf fe).
  Proof.
    induction fuel as [|fuel IH]; intros gN input key ctr flags fs fe cv bf slice Hf Hcv Hbs Hfl Hfe Hbf; [lia|].
    rewrite loop_eq. cbn [hash1_rs_go].
    destruct (N.leb_spec rs_BLOCK_LEN (N.of_nat (length slice))) as [Hl|Hl]; change rs_BLOCK_LEN with 64 in Hl.
    - replace (N.of_nat (length slice) <? rs_BLOCK_LEN) with false by (symmetry; apply N.ltb_ge; exact Hl).
      assert (L : (64 <= length slice)%nat) by lia. pose proof (div64_skip slice L) as D.
      destruct (bs_step slice Hbs L) as (Hb & Hbs').
      change (N.to_nat rs_BLOCK_LEN) with 64%nat.
      assert (Hbf' : Ifl (if N.of_nat (length slice) =? rs_BLOCK_LEN then N.lor bf fe else bf))
        by (destruct (_ =? _); [apply fl_lor|]; assumption).
      assert (E : (block_flags <- (if N.of_nat (length slice) =? rs_BLOCK_LEN
                                   then let block_flags := N.lor bf fe in Ok block_flags else Ok bf) ;; Ok block_flags)
                  = Ok (if N.of_nat (length slice) =? rs_BLOCK_LEN then N.lor bf fe else bf))
        by (destruct (_ =? _); reflexivity).
      destruct (N.of_nat (length slice) =? rs_BLOCK_LEN) eqn:Eq; cbv zeta; cbn [bind check];
        rewrite (ext_ok _ _ ctr _ Hcv Hb Hbf'); cbn [bind];
        apply IH; try assumption; try lia; apply cv_step; assumption.
    - replace (N.of_nat (length slice) <? rs_BLOCK_LEN) with true by (symmetry; apply N.ltb_lt; exact Hl).
      exists bf, slice. split; [reflexivity|exact Hcv].
  Qed.
End RsHash1.

(* ---- src/portable.rs hash1 ---- *)
Lemma src_rs_portable_hash1_loop1_eq : forall fuel gN input key counter flags flags_start flags_end cv block_flags slice,
  src_rs_portable_hash1_loop1 fuel gN input key counter flags flags_start flags_end cv block_flags slice =
  if (rs_BLOCK_LEN <=? (N.of_nat (length slice))) then
    match fuel with
    | O => OutOfFuel
    | S fuel =>
      block_flags <- (if ((N.of_nat (length slice)) =? rs_BLOCK_LEN) then
        let block_flags := (N.lor block_flags flags_end) in
        Ok block_flags
      else Ok block_flags) ;;
      assert! (rs_BLOCK_LEN <=? N.of_nat (length slice)) code 54 ;;
      cv <- (fun a b c d e => Ok (rs_compress_in_place a b c d e)) cv (firstn (N.to_nat rs_BLOCK_LEN) slice) rs_BLOCK_LEN counter block_flags ;;
      let block_flags := flags in
      assert! (rs_BLOCK_LEN <=? N.of_nat (length slice)) code 40 ;;
      let slice := skipn (N.to_nat rs_BLOCK_LEN) slice in
      src_rs_portable_hash1_loop1 fuel gN input key counter flags flags_start flags_end cv block_flags slice
    end
  else Ok (cv, block_flags, slice).
Proof. destruct fuel; reflexivity. Qed.

Definition len8 (cv : list N) : Prop := length cv = 8%nat.
Definition len64 (b : list N) : Prop := length b = 64%nat.
Definition anyl (_ : list N) : Prop := True.
Definition anyn (_ : N) : Prop := True.

Lemma firstn64_len64 (s : list N) : anyl s -> (64 <= length s)%nat -> len64 (firstn 64 s) /\ anyl (skipn 64 s).
Proof. intros _ H. split; [unfold len64; rewrite firstn_length; lia|exact I]. Qed.

Theorem src_rs_portable_hash1_ok fuel input key ctr flags fs fe :
  length key = 8%nat -> (length input / 64 < fuel)%nat ->
  src_rs_portable_hash1 fuel (N.of_nat (length input)) input key ctr flags fs fe = Portable.hash1 input key ctr flags fs fe.
Proof.
  intros Lk Hf. unfold src_rs_portable_hash1, Portable.hash1, mi_rem. change (rs_BLOCK_LEN =? 0) with false. cbn [bind].
  destruct (_ =? 0); cbn [check bind]; [|reflexivity]. cbv zeta.
  destruct (rs_hash1_loop_ok (fun a b c d e => Ok (rs_compress_in_place a b c d e)) Portable.compress_in_place len8 len64 anyl anyn
              (fun cv block ctr fl Hc Hb _ => f_equal Ok (rs_compress_in_place_eq cv block rs_BLOCK_LEN ctr fl Hc Hb))
              (fun cv block ctr fl Hc _ _ => Proofs.KernelsP.compress_in_place_length cv block rs_BLOCK_LEN ctr fl Hc)
              firstn64_len64 (fun _ _ _ _ => I)
              src_rs_portable_hash1_loop1 src_rs_portable_hash1_loop1_eq
              fuel (N.of_nat (length input)) input key ctr flags fs fe key (N.lor flags fs) input Hf Lk I I I I)
    as (bf' & sl' & E & L).
  rewrite E. cbn [bind]. rewrite lib_le_bytes_from_words_32_eq by exact L.
  rewrite (hash1_rs_go_fuel _ fuel (S (length input / 64))) by lia. rewrite hash1_rs_go_portable. reflexivity.
Qed.

(* ---- src/rust_sse2.rs / src/rust_sse41.rs hash1, over any compress_in_place ---- *)
Lemma src_rs_sse2_hash1_loop1_eq ext : forall fuel gN input key counter flags flags_start flags_end cv block_flags slice,
  src_rs_sse2_hash1_loop1 ext fuel gN input key counter flags flags_start flags_end cv block_flags slice =
  if (rs_BLOCK_LEN <=? (N.of_nat (length slice))) then
    match fuel with
    | O => OutOfFuel
    | S fuel =>
      block_flags <- (if ((N.of_nat (length slice)) =? rs_BLOCK_LEN) then
        let block_flags := (N.lor block_flags flags_end) in
        Ok block_flags
      else Ok block_flags) ;;
      assert! (rs_BLOCK_LEN <=? N.of_nat (length slice)) code 54 ;;
      cv <- ext cv (firstn (N.to_nat rs_BLOCK_LEN) slice) rs_BLOCK_LEN counter block_flags ;;
      let block_flags := flags in
      assert! (rs_BLOCK_LEN <=? N.of_nat (length slice)) code 40 ;;
      let slice := skipn (N.to_nat rs_BLOCK_LEN) slice in
      src_rs_sse2_hash1_loop1 ext fuel gN input key counter flags flags_start flags_end cv block_flags slice
    end
  else Ok (cv, block_flags, slice).
Proof. destruct fuel; reflexivity. Qed.

Lemma src_rs_sse41_hash1_loop1_eq ext : forall fuel gN input key counter flags flags_start flags_end cv block_flags slice,
  src_rs_sse41_hash1_loop1 ext fuel gN input key counter flags flags_start flags_end cv block_flags slice =
  if (rs_BLOCK_LEN <=? (N.of_nat (length slice))) then
    match fuel with
    | O => OutOfFuel
    | S fuel =>
      block_flags <- (if ((N.of_nat (length slice)) =? rs_BLOCK_LEN) then
        let block_flags := (N.lor block_flags flags_end) in
        Ok block_flags
      else Ok block_flags) ;;
      assert! (rs_BLOCK_LEN <=? N.of_nat (length slice)) code 54 ;;
      cv <- ext cv (firstn (N.to_nat rs_BLOCK_LEN) slice) rs_BLOCK_LEN counter block_flags ;;
      let block_flags := flags in
      assert! (rs_BLOCK_LEN <=? N.of_nat (length slice)) code 40 ;;
      let slice := skipn (N.to_nat rs_BLOCK_LEN) slice in
      src_rs_sse41_hash1_loop1 ext fuel gN input key counter flags flags_start flags_end cv block_flags slice
    end
  else Ok (cv, block_flags, slice).
Proof. destruct fuel; reflexivity. Qed.

Definition okc (cip : cip_fn) : list N -> list N -> N -> N -> N -> res (list N) := fun a b c d e => Ok (cip a b c d e).

Lemma anyl_step (s : list N) : anyl s -> (64 <= length s)%nat -> anyl (firstn 64 s) /\ anyl (skipn 64 s).
Proof. intros; split; exact I. Qed.

Ltac rs_hash1_any loop loop_eq cip fuel input key ctr flags fs fe Hf :=
  destruct (rs_hash1_loop_ok (okc cip) cip anyl anyl anyl anyn
              (fun cv block ctr fl _ _ _ => eq_refl) (fun _ _ _ _ _ _ _ => I) anyl_step (fun _ _ _ _ => I)
              (loop (okc cip)) (loop_eq (okc cip))
              fuel (N.of_nat (length input)) input key ctr flags fs fe key (N.lor flags fs) input Hf I I I I I)
    as (bf' & sl' & E & _).

Theorem src_rs_sse2_hash1_ok cip fuel input blocks key ctr flags fs fe : (length input / 64 < fuel)%nat ->
  src_rs_sse2_hash1 (okc cip) fuel (N.of_nat (length input)) input key ctr flags fs fe = hash1_rs cip input blocks key ctr flags fs fe.
Proof.
  intros Hf. unfold src_rs_sse2_hash1, hash1_rs, mi_rem. change (rs_BLOCK_LEN =? 0) with false. cbn [bind].
  destruct (_ =? 0); cbn [check bind]; [|reflexivity]. cbv zeta.
  rs_hash1_any src_rs_sse2_hash1_loop1 src_rs_sse2_hash1_loop1_eq cip fuel input key ctr flags fs fe Hf.
  rewrite E. cbn [bind]. rewrite (hash1_rs_go_fuel _ fuel (S (length input / 64))) by lia. reflexivity.
Qed.

Theorem src_rs_sse41_hash1_ok cip fuel input blocks key ctr flags fs fe : (length input / 64 < fuel)%nat ->
  src_rs_sse41_hash1 (okc cip) fuel (N.of_nat (length input)) input key ctr flags fs fe = hash1_rs cip input blocks key ctr flags fs fe.
Proof.
  intros Hf. unfold src_rs_sse41_hash1, hash1_rs, mi_rem. change (rs_BLOCK_LEN =? 0) with false. cbn [bind].
  destruct (_ =? 0); cbn [check bind]; [|reflexivity]. cbv zeta.
  rs_hash1_any src_rs_sse41_hash1_loop1 src_rs_sse41_hash1_loop1_eq cip fuel input key ctr flags fs fe Hf.
  rewrite E. cbn [bind]. rewrite (hash1_rs_go_fuel _ fuel (S (length input / 64))) by lia. reflexivity.
Qed.

(* ------------------------------------------------------------------ *)
(* B. the block loop of the C hash_one_*                               *)
(* ------------------------------------------------------------------ *)
Section CHashOne.
  Variable ext : list N -> list N -> N -> N -> N -> list N.
  Variable cip : cip_fn.
  Variables (Icv Ib Ibs : list N -> Prop) (Ifl : N -> Prop).
  Hypothesis ext_ok : forall cv block ctr fl, Icv cv -> Ib block -> Ifl fl ->
    ext cv block c_BLOCK_LEN ctr fl = cip cv block c_BLOCK_LEN ctr fl.
  Hypothesis cv_step : forall cv block ctr fl, Icv cv -> Ib block -> Ifl fl -> Icv (cip cv block c_BLOCK_LEN ctr fl).
  Hypothesis bs_step : forall s, Ibs s -> (64 <= length s)%nat -> Ib (firstn 64 s) /\ Ibs (skipn 64 s).
  Hypothesis fl_lor : forall a b, Ifl a -> Ifl b -> Ifl (N.lor a b).

  Variable loop : nat -> list N -> N -> list N -> N -> N -> N -> N -> list N -> list N -> N -> res (list N * N * list N * N).
  Hypothesis loop_eq : forall fuel input blocks key counter flags flags_start flags_end out cv block_flags,
    loop fuel input blocks key counter flags flags_start flags_end out cv block_flags =
    if (0 <? blocks) then
      match fuel with
      | O => OutOfFuel
      | S fuel =>
        block_flags <- (if (blocks =? 1) then
          let block_flags := (N.lor block_flags flags_end) in
          Ok block_flags
        else Ok block_flags) ;;
        let cv := ext cv (firstn 64 input) c_BLOCK_LEN counter block_flags in
        let input := skipn (N.to_nat c_BLOCK_LEN) input in
        let blocks := c_wsub 64 blocks 1 in
        let block_flags := flags in
        loop fuel input blocks key counter flags flags_start flags_end out cv block_flags
      end
    else Ok (input, blocks, cv, block_flags).

  Lemma c_hash_one_loop_ok : forall blocks fuel input key ctr flags fs fe out cv bf,
    (blocks < fuel)%nat -> N.of_nat blocks < 2 ^ 64 -> (64 * blocks <= length input)%nat ->
    Icv cv -> Ibs input -> Ifl flags -> Ifl fe -> Ifl bf ->
    exists input' blocks' bf', loop fuel input (N.of_nat blocks) key ctr flags fs fe out cv bf
      = Ok (input', blocks', hash_one_go cip blocks cv input ctr flags bf fe, bf')
      /\ Icv (hash_one_go cip blocks cv input ctr flags bf fe).
  Proof.
    induction blocks as [|blocks IH]; intros fuel input key ctr flags fs fe out cv bf Hf Hb Hl Hcv Hbs Hfl Hfe Hbf.
    - rewrite loop_eq. change (0 <? N.of_nat 0) with false. cbn [hash_one_go].
      exists input, (N.of_nat 0), bf. split; [reflexivity|exact Hcv].
    - destruct fuel as [|fuel]; [lia|]. rewrite loop_eq.
      replace (0 <? N.of_nat (S blocks)) with true by (symmetry; apply N.ltb_lt; lia).
      cbn [hash_one_go].
      replace (N.of_nat (S blocks) =? 1) with (S blocks =? 1)%nat
        by (destruct (Nat.eqb_spec (S blocks) 1); symmetry; [apply N.eqb_eq|apply N.eqb_neq]; lia).
      assert (L : (64 <= length input)%nat) by lia.
      destruct (bs_step input Hbs L) as (Hblk & Hbs').
      rewrite c_wsub_small by lia. replace (N.of_nat (S blocks) - 1) with (N.of_nat blocks) by lia.
      change (N.to_nat c_BLOCK_LEN) with 64%nat.
      assert (Hbf' : Ifl (if (S blocks =? 1)%nat then N.lor bf fe else bf))
        by (destruct (_ =? _)%nat; [apply fl_lor|]; assumption).
      destruct (S blocks =? 1)%nat; cbv zeta; cbn [bind];
        rewrite (ext_ok _ _ ctr _ Hcv Hblk Hbf');
        (apply IH; [lia|lia|rewrite skipn_length; lia|apply cv_step; assumption|assumption..]).
  Qed.
End CHashOne.

(* ---- c/blake3_portable.c hash_one_portable ---- *)
Lemma src_c_portable_hash_one_portable_loop1_eq : forall fuel input blocks key counter flags flags_start flags_end out cv block_flags,
  src_c_portable_hash_one_portable_loop1 fuel input blocks key counter flags flags_start flags_end out cv block_flags =
  if (0 <? blocks) then
    match fuel with
    | O => OutOfFuel
    | S fuel =>
      block_flags <- (if (blocks =? 1) then
        let block_flags := (N.lor block_flags flags_end) in
        Ok block_flags
      else Ok block_flags) ;;
      let cv := c_blake3_compress_in_place_portable cv (firstn 64 input) c_BLOCK_LEN counter block_flags in
      let input := skipn (N.to_nat c_BLOCK_LEN) input in
      let blocks := c_wsub 64 blocks 1 in
      let block_flags := flags in
      src_c_portable_hash_one_portable_loop1 fuel input blocks key counter flags flags_start flags_end out cv block_flags
    end
  else Ok (input, blocks, cv, block_flags).
Proof. destruct fuel; reflexivity. Qed.

Lemma hash_one_go_portable : forall blocks cv input ctr fl bf fe fuel,
  length input = (blocks * 64)%nat -> (blocks < fuel)%nat ->
  hash_one_go Portable.compress_in_place blocks cv input ctr fl bf fe = hash1_go fuel cv input ctr fl bf fe.
Proof.
  induction blocks as [|blocks IH]; intros cv input ctr fl bf fe fuel Li Hf; (destruct fuel as [|fuel]; [lia|]);
    rewrite Proofs.KernelsP.hash1_go_S, Li.
  - reflexivity.
  - replace (N.of_nat (S blocks * 64) <? 64) with false by lia.
    cbn [hash_one_go]. change c_BLOCK_LEN with 64.
    replace (N.of_nat (S blocks * 64) =? 64) with (S blocks =? 1)%nat
      by (destruct (Nat.eqb_spec (S blocks) 1); symmetry; [apply N.eqb_eq|apply N.eqb_neq]; lia).
    apply IH; [rewrite skipn_length, Li; lia|lia].
Qed.

(* `out`: the 32 bytes the caller passes; all of them are overwritten *)
Theorem src_c_portable_hash_one_portable_ok fuel input blocks key ctr flags fs fe out :
  length key = 8%nat -> length out = 32%nat -> length input = (blocks * 64)%nat -> (blocks < fuel)%nat -> N.of_nat blocks < 2 ^ 64 ->
  src_c_portable_hash_one_portable fuel input (N.of_nat blocks) key ctr flags fs fe out = Portable.hash1 input key ctr flags fs fe.
Proof.
  intros Lk Lo Li Hf Hb. unfold src_c_portable_hash_one_portable, Portable.hash1. cbv zeta.
  assert (Lk8 : firstn 8 key = key) by (rewrite <- Lk; apply firstn_all). rewrite Lk8.
  destruct (c_hash_one_loop_ok c_blake3_compress_in_place_portable Portable.compress_in_place len8 len64 anyl anyn
              (fun cv block ctr fl Hc Hb _ => c_compress_in_place_eq cv block c_BLOCK_LEN ctr fl Hc Hb)
              (fun cv block ctr fl Hc _ _ => Proofs.KernelsP.compress_in_place_length cv block c_BLOCK_LEN ctr fl Hc)
              firstn64_len64 (fun _ _ _ _ => I)
              src_c_portable_hash_one_portable_loop1 src_c_portable_hash_one_portable_loop1_eq
              blocks fuel input key ctr flags fs fe out key (N.lor flags fs) Hf Hb ltac:(lia) Lk I I I I)
    as (i' & b' & bf' & E & L).
  rewrite E. cbn [bind]. rewrite src_store_cv_words_eq by assumption.
  rewrite bind_check_true by (change rs_BLOCK_LEN with 64; apply N.eqb_eq; rewrite Li, Nat2N.inj_mul; apply N.mod_mul; discriminate).
  rewrite (hash_one_go_portable blocks key input ctr flags (N.lor flags fs) fe (S (length input / 64))); [reflexivity|exact Li|].
  rewrite Li, Nat.div_mul by discriminate. lia.
Qed.

(* ---- hash_one_sse2 / hash_one_sse41 / hash_one_avx512, over any compress_in_place ---- *)
Ltac c_loop_eq := intros fuel; destruct fuel; reflexivity.
Lemma src_c_sse2_hash_one_sse2_loop1_eq ext : forall fuel input blocks key counter flags flags_start flags_end out cv block_flags,
  src_c_sse2_hash_one_sse2_loop1 ext fuel input blocks key counter flags flags_start flags_end out cv block_flags =
  if (0 <? blocks) then
    match fuel with
    | O => OutOfFuel
    | S fuel =>
      block_flags <- (if (blocks =? 1) then
        let block_flags := (N.lor block_flags flags_end) in
        Ok block_flags
      else Ok block_flags) ;;
      let cv := ext cv (firstn 64 input) c_BLOCK_LEN counter block_flags in
      let input := skipn (N.to_nat c_BLOCK_LEN) input in
      let blocks := c_wsub 64 blocks 1 in
      let block_flags := flags in
      src_c_sse2_hash_one_sse2_loop1 ext fuel input blocks key counter flags flags_start flags_end out cv block_flags
    end
  else Ok (input, blocks, cv, block_flags).
Proof. c_loop_eq. Qed.
Lemma src_c_sse41_hash_one_sse41_loop1_eq ext : forall fuel input blocks key counter flags flags_start flags_end out cv block_flags,
  src_c_sse41_hash_one_sse41_loop1 ext fuel input blocks key counter flags flags_start flags_end out cv block_flags =
  if (0 <? blocks) then
    match fuel with
    | O => OutOfFuel
    | S fuel =>
      block_flags <- (if (blocks =? 1) then
        let block_flags := (N.lor block_flags flags_end) in
        Ok block_flags
      else Ok block_flags) ;;
      let cv := ext cv (firstn 64 input) c_BLOCK_LEN counter block_flags in
      let input := skipn (N.to_nat c_BLOCK_LEN) input in
      let blocks := c_wsub 64 blocks 1 in
      let block_flags := flags in
      src_c_sse41_hash_one_sse41_loop1 ext fuel input blocks key counter flags flags_start flags_end out cv block_flags
    end
  else Ok (input, blocks, cv, block_flags).
Proof. c_loop_eq. Qed.
Lemma src_c_avx512_hash_one_avx512_loop1_eq ext : forall fuel input blocks key counter flags flags_start flags_end out cv block_flags,
  src_c_avx512_hash_one_avx512_loop1 ext fuel input blocks key counter flags flags_start flags_end out cv block_flags =
  if (0 <? blocks) then
    match fuel with
    | O => OutOfFuel
    | S fuel =>
      block_flags <- (if (blocks =? 1) then
        let block_flags := (N.lor block_flags flags_end) in
        Ok block_flags
      else Ok block_flags) ;;
      let cv := ext cv (firstn 64 input) c_BLOCK_LEN counter block_flags in
      let input := skipn (N.to_nat c_BLOCK_LEN) input in
      let blocks := c_wsub 64 blocks 1 in
      let block_flags := flags in
      src_c_avx512_hash_one_avx512_loop1 ext fuel input blocks key counter flags flags_start flags_end out cv block_flags
    end
  else Ok (input, blocks, cv, block_flags).
Proof. c_loop_eq. Qed.

Ltac c_hash_one_any f loop loop_eq :=
  intros Lk Hf Hb Hl; unfold f, hash_one_c; cbv zeta;
  match goal with |- context [firstn 8 ?key] =>
    assert (Lk8 : firstn 8 key = key) by (rewrite <- Lk; apply firstn_all); rewrite !Lk8 end;
  match goal with |- context [loop ?cip ?fuel ?input (N.of_nat ?blocks) ?key ?ctr ?flags ?fs ?fe ?out ?key (N.lor ?flags ?fs)] =>
    destruct (c_hash_one_loop_ok cip cip anyl anyl anyl anyn
                (fun cv block ctr fl _ _ _ => eq_refl) (fun _ _ _ _ _ _ _ => I) anyl_step (fun _ _ _ _ => I)
                (loop cip) (loop_eq cip)
                blocks fuel input key ctr flags fs fe out key (N.lor flags fs) Hf Hb Hl I I I I I)
      as (i' & b' & bf' & E & _) end.

(* (key is `const uint32_t key[8]`; the final memcpy copies the 8 words of cv) *)
Theorem src_c_sse2_hash_one_sse2_ok (cip : cip_fn) fuel input blocks key ctr flags fs fe out :
  length key = 8%nat -> (blocks < fuel)%nat -> N.of_nat blocks < 2 ^ 64 -> (64 * blocks <= length input)%nat ->
  length (hash_one_go cip blocks key input ctr flags (N.lor flags fs) fe) = 8%nat ->
  src_c_sse2_hash_one_sse2 cip fuel input (N.of_nat blocks) key ctr flags fs fe out = hash_one_c cip input blocks key ctr flags fs fe.
Proof.
  intros Lk Hf Hb Hl L8; revert Lk Hf Hb Hl.
  c_hash_one_any src_c_sse2_hash_one_sse2 src_c_sse2_hash_one_sse2_loop1 src_c_sse2_hash_one_sse2_loop1_eq.
  rewrite E; cbn [bind]. rewrite <- L8 at 1. rewrite firstn_all. reflexivity.
Qed.
Theorem src_c_sse41_hash_one_sse41_ok (cip : cip_fn) fuel input blocks key ctr flags fs fe out :
  length key = 8%nat -> (blocks < fuel)%nat -> N.of_nat blocks < 2 ^ 64 -> (64 * blocks <= length input)%nat ->
  length (hash_one_go cip blocks key input ctr flags (N.lor flags fs) fe) = 8%nat ->
  src_c_sse41_hash_one_sse41 cip fuel input (N.of_nat blocks) key ctr flags fs fe out = hash_one_c cip input blocks key ctr flags fs fe.
Proof.
  intros Lk Hf Hb Hl L8; revert Lk Hf Hb Hl.
  c_hash_one_any src_c_sse41_hash_one_sse41 src_c_sse41_hash_one_sse41_loop1 src_c_sse41_hash_one_sse41_loop1_eq.
  rewrite E; cbn [bind]. rewrite <- L8 at 1. rewrite firstn_all. reflexivity.
Qed.
Theorem src_c_avx512_hash_one_avx512_ok (cip : cip_fn) fuel input blocks key ctr flags fs fe out :
  length key = 8%nat -> (blocks < fuel)%nat -> N.of_nat blocks < 2 ^ 64 -> (64 * blocks <= length input)%nat ->
  length (hash_one_go cip blocks key input ctr flags (N.lor flags fs) fe) = 8%nat ->
  src_c_avx512_hash_one_avx512 cip fuel input (N.of_nat blocks) key ctr flags fs fe out = hash_one_c cip input blocks key ctr flags fs fe.
Proof.
  intros Lk Hf Hb Hl L8; revert Lk Hf Hb Hl.
  c_hash_one_any src_c_avx512_hash_one_avx512 src_c_avx512_hash_one_avx512_loop1 src_c_avx512_hash_one_avx512_loop1_eq.
  rewrite E; cbn [bind]. rewrite <- L8 at 1. rewrite firstn_all. reflexivity.
Qed.

(* ------------------------------------------------------------------ *)
(* C. src/portable.rs hash_many                                        *)
(* ------------------------------------------------------------------ *)
Lemma src_rs_portable_hash_many_loop1_ok fuel n key incr flags fs fe : length key = 8%nat -> (n / 64 < fuel)%nat ->
  forall inputs chunks counter acc, Forall (fun i => length i = n) inputs -> N.of_nat (length inputs) <= chunks ->
  ('(counter, out_w) <- src_rs_portable_hash_many_loop1 fuel (N.of_nat n) inputs chunks key counter incr flags fs fe acc ;; Ok out_w)
  = (r <- hash_many_go inputs key counter incr flags fs fe ;; Ok (acc ++ r)).
Proof.
  intros Lk Hf. induction inputs as [|input tl IH]; intros chunks counter acc Hall Hc.
  - cbn [src_rs_portable_hash_many_loop1 hash_many_go bind]. rewrite app_nil_r. reflexivity.
  - cbn [src_rs_portable_hash_many_loop1 hash_many_go]. cbn [length] in Hc.
    replace (chunks =? 0) with false by (symmetry; apply N.eqb_neq; lia).
    inversion Hall as [|? ? Hi Htl]; subst.
    rewrite src_rs_portable_hash1_ok by assumption.
    destruct (Portable.hash1 input key counter flags fs fe) as [cv| |]; cbn [bind]; try reflexivity.
    assert (E : (if incr then counter0 <- mi_add 64 counter 1 ;; Ok counter0 else Ok counter)
                = (if incr then mi_add 64 counter 1 else Ok counter))
      by (destruct incr; [destruct (mi_add 64 counter 1)|]; reflexivity).
    rewrite E. destruct (if incr then mi_add 64 counter 1 else Ok counter) as [c'| |]; cbn [bind]; try reflexivity.
    rewrite IH by (try assumption; lia).
    destruct (hash_many_go tl key c' incr flags fs fe); cbn [bind]; try reflexivity.
    rewrite <- app_assoc. reflexivity.
Qed.

(* out.len() = 32 * cap; every input is `&[u8; N]` with N = n *)
Theorem src_rs_portable_hash_many_ok fuel n inputs key counter incr flags fs fe cap :
  length key = 8%nat -> (n / 64 < fuel)%nat -> Forall (fun i => length i = n) inputs -> N.of_nat (length inputs) * 32 < 2 ^ 64 ->
  src_rs_portable_hash_many fuel (N.of_nat n) inputs key counter incr flags fs fe (32 * cap)
  = Portable.hash_many inputs key counter incr flags fs fe cap.
Proof.
  intros Lk Hf Hall Hlen. unfold src_rs_portable_hash_many, Portable.hash_many, mi_mul, fits. cbv zeta.
  change rs_OUT_LEN with 32.
  replace (N.of_nat (length inputs) * 32 <? 2 ^ 64) with true by (symmetry; apply N.ltb_lt; exact Hlen).
  cbn [bind].
  replace (N.of_nat (length inputs) * 32 <=? 32 * cap) with (N.of_nat (length inputs) <=? cap)
    by (destruct (N.leb_spec (N.of_nat (length inputs)) cap); symmetry; [apply N.leb_le|apply N.leb_gt]; lia).
  destruct (N.leb_spec (N.of_nat (length inputs)) cap) as [Hc|Hc]; cbn [check bind]; [|reflexivity].
  replace (32 * cap / 32) with cap by (rewrite N.mul_comm, N.div_mul; [reflexivity|discriminate]).
  rewrite (src_rs_portable_hash_many_loop1_ok fuel n key incr flags fs fe Lk Hf inputs cap counter [] Hall Hc).
  destruct (hash_many_go inputs key counter incr flags fs fe); reflexivity.
Qed.
(* D. the `while inputs.len() >= DEGREE && out.len() >= DEGREE * OUT_LEN` loop of rust_sse2.rs / rust_sse41.rs *)
Section RsBatch4.
  Variable hN : hashN_fn.
  Variable loop : nat -> N -> list (list N) -> list N -> N -> bool -> N -> N -> N -> N -> list (list N) ->
                  res (list (list N) * N * N * list (list N)).
  Hypothesis loop_eq : forall fuel gN inputs key counter increment_counter flags flags_start flags_end out_len out_w,
    loop fuel gN inputs key counter increment_counter flags flags_start flags_end out_len out_w =
    if ((4 <=? (N.of_nat (length inputs))) && (128 <=? out_len)) then
      match fuel with
      | O => OutOfFuel
      | S fuel =>
        let input_ptrs := firstn 4 inputs in
        blocks <- (mi_div 64 gN rs_BLOCK_LEN) ;;
        assert! (128 <=? out_len) code 54 ;;
        t_out <- hN input_ptrs (N.to_nat blocks) key counter increment_counter flags flags_start flags_end ;;
        let out_w := out_w ++ t_out in
        counter <- (if increment_counter then
          counter <- mi_add 64 counter 4 ;;
          Ok counter
        else Ok counter) ;;
        assert! (4 <=? N.of_nat (length inputs)) code 40 ;;
        let inputs := skipn (N.to_nat 4) inputs in
        assert! (128 <=? out_len) code 40 ;;
        let out_len := out_len - 128 in
        loop fuel gN inputs key counter increment_counter flags flags_start flags_end out_len out_w
      end
    else Ok (inputs, counter, out_len, out_w).

  Lemma rs_batch4_ok : forall fuel gN inputs key counter incr flags fs fe cap acc, (length inputs < fuel)%nat ->
    loop fuel gN inputs key counter incr flags fs fe (32 * cap) acc =
    ('(outs, st) <- batch_while fuel 4 hN cadd_rs true inputs (N.to_nat (gN / 64)) key counter incr flags fs fe cap ;;
     let '(rest, c', cap') := st in Ok (rest, c', 32 * cap', acc ++ outs)).
  Proof.
    induction fuel as [|fuel IH]; intros gN inputs key counter incr flags fs fe cap acc Hf; [lia|].
    rewrite loop_eq. cbn [batch_while negb orb]. change (N.of_nat 4) with 4.
    replace (4 <=? N.of_nat (length inputs)) with (4 <=? length inputs)%nat
      by (destruct (Nat.leb_spec 4 (length inputs)); symmetry; [apply N.leb_le|apply N.leb_gt]; lia).
    replace (128 <=? 32 * cap) with (4 <=? cap)
      by (destruct (N.leb_spec 4 cap); symmetry; [apply N.leb_le|apply N.leb_gt]; lia).
    destruct (Nat.leb_spec 4 (length inputs)) as [H4|H4]; cbn [andb];
      [|cbn [bind]; rewrite app_nil_r; reflexivity].
    destruct (N.leb_spec 4 cap) as [Hc|Hc]; [|cbn [bind]; rewrite app_nil_r; reflexivity].
    cbv zeta. unfold mi_div. change (rs_BLOCK_LEN =? 0) with false. change rs_BLOCK_LEN with 64. cbn [bind check].
    destruct (hN (firstn 4 inputs) (N.to_nat (gN / 64)) key counter incr flags fs fe) as [outs| |]; cbn [bind]; try reflexivity.
    assert (E : (if incr then counter0 <- mi_add 64 counter 4 ;; Ok counter0 else Ok counter)
                = (if incr then cadd_rs counter 4 else Ok counter))
      by (unfold cadd_rs; destruct incr; [destruct (mi_add 64 counter 4)|]; reflexivity).
    rewrite E. destruct (if incr then cadd_rs counter 4 else Ok counter) as [c'| |]; cbn [bind]; try reflexivity.
    change (N.to_nat 4) with 4%nat.
    replace (32 * cap - 128) with (32 * (cap - 4)) by lia.
    rewrite IH by (rewrite skipn_length; lia).
    destruct (batch_while fuel 4 hN cadd_rs true (skipn 4 inputs) (N.to_nat (gN / 64)) key c' incr flags fs fe (cap - 4))
      as [[o [[r c''] cap'']]| |]; cbn [bind]; try reflexivity.
    rewrite app_assoc. reflexivity.
  Qed.
End RsBatch4.

Lemma src_rs_sse41_hash_many_loop1_eq hN ext : forall fuel gN inputs key counter increment_counter flags flags_start flags_end out_len out_w,
    src_rs_sse41_hash_many_loop1 hN ext fuel gN inputs key counter increment_counter flags flags_start flags_end out_len out_w =
    if ((4 <=? (N.of_nat (length inputs))) && (128 <=? out_len)) then
      match fuel with
      | O => OutOfFuel
      | S fuel =>
        let input_ptrs := firstn 4 inputs in
        blocks <- (mi_div 64 gN rs_BLOCK_LEN) ;;
        assert! (128 <=? out_len) code 54 ;;
        t_out <- hN input_ptrs (N.to_nat blocks) key counter increment_counter flags flags_start flags_end ;;
        let out_w := out_w ++ t_out in
        counter <- (if increment_counter then
          counter <- mi_add 64 counter 4 ;;
          Ok counter
        else Ok counter) ;;
        assert! (4 <=? N.of_nat (length inputs)) code 40 ;;
        let inputs := skipn (N.to_nat 4) inputs in
        assert! (128 <=? out_len) code 40 ;;
        let out_len := out_len - 128 in
        src_rs_sse41_hash_many_loop1 hN ext fuel gN inputs key counter increment_counter flags flags_start flags_end out_len out_w
      end
    else Ok (inputs, counter, out_len, out_w).
Proof. intros fuel; destruct fuel; reflexivity. Qed.
Lemma src_rs_sse2_hash_many_loop1_eq hN ext : forall fuel gN inputs key counter increment_counter flags flags_start flags_end out_len out_w,
    src_rs_sse2_hash_many_loop1 hN ext fuel gN inputs key counter increment_counter flags flags_start flags_end out_len out_w =
    if ((4 <=? (N.of_nat (length inputs))) && (128 <=? out_len)) then
      match fuel with
      | O => OutOfFuel
      | S fuel =>
        let input_ptrs := firstn 4 inputs in
        blocks <- (mi_div 64 gN rs_BLOCK_LEN) ;;
        assert! (128 <=? out_len) code 54 ;;
        t_out <- hN input_ptrs (N.to_nat blocks) key counter increment_counter flags flags_start flags_end ;;
        let out_w := out_w ++ t_out in
        counter <- (if increment_counter then
          counter <- mi_add 64 counter 4 ;;
          Ok counter
        else Ok counter) ;;
        assert! (4 <=? N.of_nat (length inputs)) code 40 ;;
        let inputs := skipn (N.to_nat 4) inputs in
        assert! (128 <=? out_len) code 40 ;;
        let out_len := out_len - 128 in
        src_rs_sse2_hash_many_loop1 hN ext fuel gN inputs key counter increment_counter flags flags_start flags_end out_len out_w
      end
    else Ok (inputs, counter, out_len, out_w).
Proof. intros fuel; destruct fuel; reflexivity. Qed.

(* the degree-4 loop of src/rust_sse41.rs / src/rust_sse2.rs hash_many is batch_while 4 of the cascade model
   (out.len() = 32 * cap; blocks = N / BLOCK_LEN), at every fuel above inputs.len() *)
Theorem src_rs_sse41_hash_many_loop1_ok hN ext fuel gN inputs key counter incr flags fs fe cap acc : (length inputs < fuel)%nat ->
  src_rs_sse41_hash_many_loop1 hN ext fuel gN inputs key counter incr flags fs fe (32 * cap) acc =
  ('(outs, st) <- batch_while fuel 4 hN cadd_rs true inputs (N.to_nat (gN / 64)) key counter incr flags fs fe cap ;;
   let '(rest, c', cap') := st in Ok (rest, c', 32 * cap', acc ++ outs)).
Proof. apply (rs_batch4_ok hN _ (src_rs_sse41_hash_many_loop1_eq hN ext)). Qed.
Theorem src_rs_sse2_hash_many_loop1_ok hN ext fuel gN inputs key counter incr flags fs fe cap acc : (length inputs < fuel)%nat ->
  src_rs_sse2_hash_many_loop1 hN ext fuel gN inputs key counter incr flags fs fe (32 * cap) acc =
  ('(outs, st) <- batch_while fuel 4 hN cadd_rs true inputs (N.to_nat (gN / 64)) key counter incr flags fs fe cap ;;
   let '(rest, c', cap') := st in Ok (rest, c', 32 * cap', acc ++ outs)).
Proof. apply (rs_batch4_ok hN _ (src_rs_sse2_hash_many_loop1_eq hN ext)). Qed.
(* E. the `while (num_inputs >= 16)` loop of blake3_hash_many_avx512: batch_while 16 of hash_many_c16
   (num_inputs = the number of input pointers; acc = what was written before the loop; the `out` pointer itself is
   projected away: what is written is out_w) *)
Theorem src_c_avx512_blake3_hash_many_avx512_loop1_ok h16 h8 h4 ext : forall fuel inputs blocks key counter incr flags fs fe out acc,
  (length inputs < fuel)%nat -> N.of_nat (length inputs) < 2 ^ 64 ->
  (p <- src_c_avx512_blake3_hash_many_avx512_loop1 h16 h8 h4 ext fuel inputs (N.of_nat (length inputs)) blocks key counter incr flags fs fe out acc ;;
   let '(i, n, c, _, w) := p in Ok (i, n, c, w)) =
  ('(outs, st) <- batch_while fuel 16 h16 cadd_c false inputs (N.to_nat blocks) key counter incr flags fs fe 0 ;;
   let '(rest, c', _) := st in Ok (rest, N.of_nat (length rest), c', acc ++ outs)).
Proof.
  induction fuel as [|fuel IH]; intros inputs blocks key counter incr flags fs fe out acc Hf Hn; [lia|].
  cbn [src_c_avx512_blake3_hash_many_avx512_loop1 batch_while negb orb andb].
  replace (16 <=? N.of_nat (length inputs)) with (16 <=? length inputs)%nat
    by (destruct (Nat.leb_spec 16 (length inputs)); symmetry; [apply N.leb_le|apply N.leb_gt]; lia).
  destruct (Nat.leb_spec 16 (length inputs)) as [H16|H16]; cbn [andb];
    [|cbn [bind]; rewrite app_nil_r; reflexivity].
  destruct (h16 (firstn 16 inputs) (N.to_nat blocks) key counter incr flags fs fe) as [outs| |]; cbn [bind]; try reflexivity.
  cbv zeta.
  assert (E : (if incr then Ok (c_wadd 64 counter 16) else Ok counter) = (if incr then cadd_c counter (N.of_nat 16) else Ok counter))
    by reflexivity.
  rewrite E. destruct (if incr then cadd_c counter (N.of_nat 16) else Ok counter) as [c'| |]; cbn [bind]; try reflexivity.
  rewrite c_wsub_small by lia.
  replace (N.of_nat (length inputs) - 16) with (N.of_nat (length (skipn 16 inputs))) by (rewrite skipn_length; lia).
  rewrite IH by (rewrite skipn_length; lia).
  change (0 - N.of_nat 16) with 0.
  destruct (batch_while fuel 16 h16 cadd_c false (skipn 16 inputs) (N.to_nat blocks) key c' incr flags fs fe 0)
    as [[o [[r c''] cap'']]| |]; cbn [bind]; try reflexivity.
  rewrite app_assoc. reflexivity.
Qed.
