(* C01: one-shot hash, keyed_hash and derive_key compute the BLAKE3 specification.
   Statements only; proofs in Proofs/{ChunkP,TreeP,FormulasP,WideP,C01P}.v.
   `Ok` is the no-panic claim: every debug_assert!, slice index, split_at,
   ArrayVec::push and overflow check of the modelled functions is an `assert!` of
   the model.  PlatformOK p covers every SIMD degree 1..16. *)
From Coq Require Import NArith List Bool.
From V Require Import Base.Res Base.Word Spec.Compress Spec.Tree Spec.Blake3
  Model.Portable Model.Platform Model.RsWide Proofs.FormulasP Proofs.C01P gen.GenFormulas.
Import ListNotations.
Open Scope N_scope.

Theorem C01_hash_spec : forall p, PlatformOK p -> forall input,
  len input < 2 ^ 64 -> rs_hash p input = Ok (b3_hash input).
Proof. exact rs_hash_spec. Qed.

Theorem C01_keyed_hash_spec : forall p, PlatformOK p -> forall key input,
  length key = 32%nat -> len input < 2 ^ 64 ->
  rs_keyed_hash p key input = Ok (b3_keyed_hash key input).
Proof. exact rs_keyed_hash_spec. Qed.

Theorem C01_derive_key_spec : forall p, PlatformOK p -> forall context material,
  len context < 2 ^ 64 -> len material < 2 ^ 64 ->
  rs_derive_key p context material = Ok (b3_derive_key context material).
Proof. exact rs_derive_key_spec. Qed.

(* the translated source formula of hazmat::left_subtree_len, on all of u64 *)
Theorem C01_left_subtree_len_formula : forall n,
  1024 < n -> n < 2 ^ 64 -> rs_left_subtree_len n = Ok (left_len n).
Proof. exact rs_left_subtree_len_spec. Qed.

(* the specification is anchored to two published digests *)
Theorem C01_spec_anchor_empty : b3_hash [] = digest_empty.
Proof. exact anchor_empty. Qed.
Theorem C01_spec_anchor_abc : b3_hash [97; 98; 99] = digest_abc.
Proof. exact anchor_abc. Qed.

(* non-vacuity: platforms of every degree satisfy the hypothesis, and a concrete
   input meets the length bound *)
Theorem C01_platforms_exist :
  PlatformOK (sim_platform 1 16) /\ PlatformOK (sim_platform 4 16) /\ PlatformOK (sim_platform 8 16) /\
  PlatformOK (sim_platform 16 16) /\ PlatformOK (sim_platform 8 8) /\ PlatformOK (sim_platform 1 1) /\
  PlatformOK (sim_platform 2 4).
Proof. repeat split; apply sim_platform_ok; (reflexivity || (intro H; discriminate H)). Qed.

Example C01_nonvacuous :
  let input := map (fun i => N.of_nat i mod 251) (seq 0 2049) in
  len input < 2 ^ 64 /\ rs_hash (sim_platform 1 16) input = rs_hash (sim_platform 16 16) input /\
  is_ok (rs_hash (sim_platform 4 16) input) = true.
Proof. vm_compute. repeat split. Qed.

Print Assumptions C01_hash_spec.
Print Assumptions C01_keyed_hash_spec.
Print Assumptions C01_derive_key_spec.
Print Assumptions C01_left_subtree_len_formula.
Print Assumptions C01_spec_anchor_empty.
Print Assumptions C01_spec_anchor_abc.
Print Assumptions C01_platforms_exist.
