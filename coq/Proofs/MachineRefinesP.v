(* The two interpreters of the case language agree: whenever the SPECIFICATION
   machine (Model/SpecMachine.v: one byte list + offset per hasher, (output,
   position) per reader; Spec/*.v only) accepts a history, the IMPLEMENTATION
   machine (Model/Machine.v, built from the executable models of the Rust code)
   produces exactly the same observations and does not panic, on every
   PlatformOK platform.  Proved by a simulation relation (hashers: InvS, readers:
   Rd, saved chaining values: equal) and one step lemma per op, reusing the
   refinement theorems of HasherP / C02P / XofP / C09P / C01P. *)
From V Require Import Proofs.ListP.
From V Require Import Base.Res Base.Word Base.MachInt gen.GenConsts gen.GenFormulas
  Spec.Compress Spec.Tree Spec.Blake3 Model.Portable Model.Platform Model.RsChunk Model.RsWide
  Model.RsHasher Model.RsXof Model.RsIo Model.RsDebug Model.Machine Model.SpecMachine
  Proofs.PortableP Proofs.ChunkP Proofs.TreeP Proofs.FormulasP Proofs.WideP Proofs.C01P Proofs.XofP
  Proofs.StackArithP Proofs.HasherP Proofs.IoP Proofs.C02P Proofs.C09P.
Open Scope N_scope.

(* the domain of a mode: a keyed hash has a 32-byte key, a context string is shorter than 2^64 *)
Definition mode_ok (m : mmode) : Prop :=
  match m with
  | MHash => True
  | MKeyed k => length k = 32%nat
  | MDerive c | MDeriveK c => len c < 2 ^ 64
  end.

Definition mkey (m : mmode) : list N := mode_key (spec_mode m).
Definition mflags (m : mmode) : N := mode_flags (spec_mode m).

Lemma lowbit_tz q : lowbit_pos q = 2 ^ tz_pos q.
Proof.
  induction q as [q IH|q IH|]; cbn [lowbit_pos tz_pos]; try reflexivity.
  rewrite IH, N.add_1_l, N.pow_succ_r'. reflexivity.
Qed.

Section Modes.
  Variable p : platform.
  Hypothesis POK : PlatformOK p.
  Local Opaque subtree_output stream.

  Lemma context_key_spec c : len c < 2 ^ 64 ->
    rs_hash_derive_key_context p c = Ok (b3_hash_mode DeriveKeyContext c).
  Proof.
    intros Hc. unfold rs_hash_derive_key_context. rewrite rs_IV_is_spec.
    change rs_flag_DERIVE_KEY_CONTEXT with DERIVE_KEY_CONTEXT.
    rewrite (root_hash_spec p POK IV DERIVE_KEY_CONTEXT c) by (try reflexivity; exact Hc).
    reflexivity.
  Qed.

  Lemma context_key_length c : length (b3_hash_mode DeriveKeyContext c) = 32%nat.
  Proof. unfold b3_hash_mode, hash_mode. apply stream_length. Qed.

  Lemma mkey_length m : mode_ok m -> length (mkey m) = 8%nat.
  Proof.
    destruct m as [|k|c|c]; cbn [mode_ok mkey spec_mode mode_key]; intros H.
    - reflexivity.
    - apply words_of_bytes_length. rewrite H. reflexivity.
    - apply words_of_bytes_length. rewrite context_key_length. reflexivity.
    - apply words_of_bytes_length. rewrite context_key_length. reflexivity.
  Qed.

  Lemma mode_init_spec m : mode_ok m -> mode_init p m = Ok (mkey m, mflags m).
  Proof.
    destruct m as [|k|c|c]; cbn [mode_ok mode_init mkey mflags spec_mode mode_key mode_flags]; intros H.
    - rewrite rs_IV_is_spec. reflexivity.
    - reflexivity.
    - rewrite (context_key_spec c H). reflexivity.
    - rewrite (context_key_spec c H). reflexivity.
  Qed.

  Lemma one_shot_spec m b : mode_ok m -> len b < 2 ^ 64 ->
    one_shot p m b = Ok (stream spec_c64 (sub_out m 0 b) 0 32).
  Proof.
    intros Hm Hb. pose proof (mkey_length m Hm) as HK.
    destruct m as [|k|c|c]; cbn [mode_ok one_shot] in *.
    - unfold rs_hash. rewrite rs_IV_is_spec. apply (root_hash_spec p POK IV 0 b); [reflexivity|exact Hb].
    - unfold rs_keyed_hash. apply (root_hash_spec p POK (words_of_bytes k) KEYED_HASH b); [exact HK|exact Hb].
    - unfold rs_derive_key. rewrite (context_key_spec c Hm). cbn [bind].
      apply (root_hash_spec p POK (words_of_bytes (b3_hash_mode DeriveKeyContext c)) DERIVE_KEY_MATERIAL b); [exact HK|exact Hb].
    - unfold rs_derive_key. rewrite (context_key_spec c Hm). cbn [bind].
      apply (root_hash_spec p POK (words_of_bytes (b3_hash_mode DeriveKeyContext c)) DERIVE_KEY_MATERIAL b); [exact HK|exact Hb].
  Qed.
End Modes.

(* ---- one hasher / one reader against its specification state ------------------------------- *)
Section Instances.
  Variable p : platform.
  Hypothesis POK : PlatformOK p.
  Variable m : mmode.
  Hypothesis Hm : mode_ok m.
  Local Opaque subtree_output stream.

  Notation K := (mkey m).
  Notation F := (mflags m).

  Lemma HK : length K = 8%nat.
  Proof. apply mkey_length. exact Hm. Qed.

  Lemma sub_out_eq c0 bs : sub_out m c0 bs = subtree_output spec_c8 tree_height K F c0 bs.
  Proof. reflexivity. Qed.

  (* a hasher that has absorbed si_bytes as the subtree starting at chunk si_off *)
  Definition Rh (h : hasher) (x : sinst) : Prop :=
    si_off x < 2 ^ 54 /\ InvS K F (si_off x) h (si_bytes x).
  (* a reader at position sr_pos of the stream of sr_out *)
  Definition Rr (r : reader) (x : sreader) : Prop :=
    Rd r (sr_out x) (sr_pos x) /\ sr_pos x <= 2 ^ 64 - 1.

  Lemma Rh_new : Rh (new_internal K F) (mkSI [] 0).
  Proof. split; [reflexivity|]. apply (new_internal_Inv p POK K F HK). Qed.

  Lemma room_bounds off t : off < 2 ^ 54 -> room off t = true ->
    t <= 1024 * lim_of off /\ t < 2 ^ 64.
  Proof.
    intros Hoff Hr. pose proof (lim_ok K HK off Hoff) as Hlo.
    assert (H54 : 2 ^ 54 = 18014398509481984) by reflexivity. rewrite two64.
    destruct off as [|q]; cbn [room] in Hr.
    - change (lim_of 0) with (2 ^ 54). rewrite two64 in Hr. lia.
    - unfold lim_of in *. change (N.pos q =? 0) with false in *. cbn iota in *. cbn [tz] in *.
      rewrite lowbit_tz in Hr. lia.
  Qed.

  Lemma sim_update h x b : Rh h x -> room (si_off x) (len (si_bytes x) + len b) = true ->
    exists h', hasher_update p h b = Ok h' /\ Rh h' (mkSI (si_bytes x ++ b) (si_off x)).
  Proof.
    destruct x as [bs off]. unfold Rh. cbn [si_off si_bytes]. intros [Hoff HI] Hr.
    destruct (room_bounds off _ Hoff Hr) as [H1 H2].
    destruct (InvS_update p POK K F HK off Hoff h bs b HI) as (h' & Hu & HI').
    { rewrite len_app. exact H1. }
    { rewrite len_app. exact H2. }
    exists h'. split; [exact Hu|]. split; assumption.
  Qed.

  Lemma Rh_len h x : Rh h x -> len (si_bytes x) < 2 ^ 64.
  Proof. intros [_ (es & _ & _ & _ & _ & _ & H)]. exact H. Qed.

  Lemma Rh_init h x : Rh h x -> h_init h = si_off x.
  Proof. intros [_ (es & (_ & _ & Hi & _) & _)]. exact Hi. Qed.

  Lemma sim_count h x : Rh h x -> hasher_count h = Ok (len (si_bytes x)).
  Proof. intros [Hoff HI]. apply (InvS_count p POK K F HK (si_off x) Hoff h _ HI). Qed.

  Lemma sim_reset h x : Rh h x -> Rh (hasher_reset h) (mkSI [] 0).
  Proof. intros [Hoff HI]. rewrite (reset_is_new K F (si_off x) h _ HI). apply Rh_new. Qed.

  Lemma root_wf bs : len bs < 2 ^ 64 -> wf_out (sub_out m 0 bs) /\ o_ctr (sub_out m 0 bs) = 0.
  Proof.
    intros H. rewrite sub_out_eq.
    destruct (subtree_output_root_wf spec_c8 p POK spec_c8_cip spec_c8_len K F HK bs H) as [[W1 W2] Hc].
    split; [split; assumption|exact Hc].
  Qed.

  (* finalize_xof: the root output of the bytes absorbed so far *)
  Lemma sim_final_output h x : Rh h x -> si_off x = 0 ->
    hasher_finalize_output p h = Ok (sub_out m 0 (si_bytes x)).
  Proof.
    intros HR H0. pose proof (Rh_init h x HR) as Hi. destruct HR as [Hoff HI]. rewrite H0 in *.
    unfold hasher_finalize_output. rewrite Hi. change (0 =? 0) with true. cbn [check bind].
    rewrite (InvS_output p POK K F HK 0 Hoff h _ HI). reflexivity.
  Qed.

  Lemma root_hash_of o : wf_out o -> o_ctr o = 0 -> out_root_hash p o = Ok (stream spec_c64 o 0 32).
  Proof.
    intros [W1 W2] Hc. unfold out_root_hash. rewrite Hc. change (0 =? 0) with true. cbn [check bind].
    rewrite (ok_cip p POK), spec_c8_cip by assumption. rewrite stream_32 by assumption. reflexivity.
  Qed.

  Lemma sim_finalize h x : Rh h x -> si_off x = 0 ->
    hasher_finalize p h = Ok (stream spec_c64 (sub_out m 0 (si_bytes x)) 0 32).
  Proof.
    intros HR H0. pose proof (sim_final_output h x HR H0) as Ho.
    destruct (root_wf _ (Rh_len h x HR)) as [Hwf Hc].
    unfold hasher_finalize_output in Ho. unfold hasher_finalize.
    destruct (check (h_init h =? 0) 22) as [[]| |]; cbn [bind] in *; try discriminate.
    rewrite Ho. cbn [bind]. apply root_hash_of; assumption.
  Qed.

  (* finalize_xof + fill from position 0 *)
  Lemma sim_xof h x n : Rh h x -> si_off x = 0 -> n <= 2 ^ 64 - 1 ->
    exists r', reader_fill p (reader_new (sub_out m 0 (si_bytes x))) n =
               Ok (r', stream spec_c64 (sub_out m 0 (si_bytes x)) 0 (N.to_nat n)) /\
               Rr r' (mkSR (sub_out m 0 (si_bytes x)) n).
  Proof.
    intros HR H0 Hn. destruct (root_wf _ (Rh_len h x HR)) as [Hwf Hc].
    destruct (reader_fill_spec p POK _ _ 0 n (Rd_new _ Hwf Hc) ltac:(lia)) as (r' & Hf & HR').
    exists r'. split; [exact Hf|]. split; [exact HR'|]. cbn [sr_pos]. lia.
  Qed.

  Lemma Rr_new h x : Rh h x -> si_off x = 0 ->
    Rr (reader_new (sub_out m 0 (si_bytes x))) (mkSR (sub_out m 0 (si_bytes x)) 0).
  Proof.
    intros HR H0. destruct (root_wf _ (Rh_len h x HR)) as [Hwf Hc].
    split; [apply Rd_new; assumption|]. cbn [sr_pos]. lia.
  Qed.

  (* hazmat: an instance that has absorbed nothing is the constructor state at its offset *)
  Lemma Rh_nil_fresh h c0 : Rh h (mkSI [] c0) -> h = fresh K F c0.
  Proof.
    unfold Rh. cbn [si_off si_bytes]. intros [Hc (es & (Hk & Hf & Hi & Hs & _ & Hle) & HT & _)].
    change (len []) with 0 in Hle.
    assert (Hes : es = []).
    { destruct es as [|a es]; [reflexivity|]. cbn [sum2] in Hle. pose proof (pow2_pos a). lia. }
    subst es. cbn [sum2] in HT. unfold drop in HT. rewrite skipn_nil, N.add_0_r in HT.
    destruct HT as (nb & [Hcs [Hl _]] & _). change (len []) with 0 in Hl.
    assert (nb = 0%nat) by lia. subst nb.
    destruct h as [hk hcs hi hst]. cbn [h_key h_cs h_init h_stack h_flags] in *.
    subst hk hi hst hcs. reflexivity.
  Qed.

  Lemma sim_set_offset h x off : Rh h x -> len (si_bytes x) = 0 -> off mod 1024 = 0 -> off < 2 ^ 64 ->
    exists h', set_input_offset h off = Ok h' /\ Rh h' (mkSI [] (off / 1024)).
  Proof.
    intros HR Hl Hmod Hoff. destruct x as [bs c0]. cbn [si_bytes] in Hl.
    assert (bs = []) by (destruct bs; [reflexivity|unfold len in Hl; cbn [length] in Hl; lia]). subst bs.
    pose proof (sim_count h _ HR) as Hc. cbn [si_bytes] in Hc.
    rewrite (Rh_nil_fresh h c0 HR) in *.
    assert (Hq : off / 1024 < 2 ^ 54).
    { apply N.div_lt_upper_bound; [lia|]. rewrite two64 in Hoff. change (2 ^ 54) with 18014398509481984. lia. }
    exists (fresh K F (off / 1024)). split.
    - unfold set_input_offset. rewrite Hc. cbn [bind]. change (len [] =? 0) with true. cbn [check bind].
      change rs_CHUNK_LEN with 1024. rewrite Hmod. change (0 =? 0) with true. cbn [check bind]. reflexivity.
    - split; [exact Hq|]. cbn [si_off si_bytes]. apply (InvS_fresh p POK K F HK _ Hq).
  Qed.

  (* finalize_non_root: the specification's subtree chaining value *)
  Lemma sim_non_root h x : Rh h x -> 0 < len (si_bytes x) ->
    finalize_non_root p h = Ok (chaining_value spec_c8 (sub_out m (si_off x) (si_bytes x))) /\
    length (chaining_value spec_c8 (sub_out m (si_off x) (si_bytes x))) = 32%nat.
  Proof.
    intros HR Hpos. pose proof (Rh_len h x HR) as H64. pose proof (sim_count h x HR) as Hc.
    destruct HR as [Hoff HI].
    assert (Hwf : wf_output (sub_out m (si_off x) (si_bytes x))).
    { rewrite sub_out_eq. apply (sub_wf p POK K F HK). rewrite two64 in *. lia. }
    split; [|apply cvs_length; exact Hwf].
    unfold finalize_non_root. rewrite Hc. cbn [bind].
    replace (len (si_bytes x) =? 0) with false by lia. cbn [negb check bind].
    rewrite (InvS_output p POK K F HK _ Hoff h _ HI). cbn [bind]. f_equal.
    rewrite <- sub_out_eq. apply (wf_chaining_value spec_c8 p POK spec_c8_cip). exact Hwf.
  Qed.

  (* merge_subtrees_*: parent node over two 32-byte chaining values *)
  Lemma parent_wf l r : length l = 32%nat -> length r = 32%nat ->
    wf_out (parent_output K F l r) /\ o_ctr (parent_output K F l r) = 0.
  Proof.
    intros Hl Hr. split; [|reflexivity]. split; [exact HK|].
    cbn [parent_output o_block]. rewrite app_length. lia.
  Qed.
End Instances.

(* ---- the trait constructors: Digest::new is the hash mode, KeyInit::new the keyed mode ------- *)
Lemma tdigest_inv {A} m (x r : A) :
  match m with MHash => Some x | _ => None end = Some r -> m = MHash /\ x = r.
Proof. destruct m; intros H; try discriminate. injection H as <-. auto. Qed.

Lemma tkeyinit_inv {A} m (x r : A) :
  match m with MKeyed _ => Some x | _ => None end = Some r -> (exists k, m = MKeyed k) /\ x = r.
Proof. destruct m; intros H; try discriminate. injection H as <-. eauto. Qed.

Lemma tdigest_step p pn m st : m = MHash ->
  step p pn m (mkey m) (mflags m) st OpTDigestNew = Ok (add_hasher st (new_internal (mkey m) (mflags m)), []).
Proof. intros ->. cbn [step]. rewrite rs_IV_is_spec. reflexivity. Qed.

Lemma tkeyinit_step p pn m st : (exists k, m = MKeyed k) ->
  step p pn m (mkey m) (mflags m) st OpTKeyInit = Ok (add_hasher st (new_internal (mkey m) (mflags m)), []).
Proof. intros [k ->]. reflexivity. Qed.

Lemma Forall_snoc {A} (P : A -> Prop) l x : Forall P l -> P x -> Forall P (l ++ [x]).
Proof. intros H Hx. apply Forall_app. split; [exact H|constructor; [exact Hx|constructor]]. Qed.

Lemma set_nth_same {A} (l : list A) i x : nth_error l i = Some x -> set_nth l i x = l.
Proof.
  revert i. induction l as [|y l IH]; intros i H; [reflexivity|].
  destruct i as [|i]; cbn [nth_error set_nth] in *; [injection H as ->; reflexivity|].
  rewrite (IH i H). reflexivity.
Qed.

(* ---- one step of the machines ------------------------------------------------------------------ *)
Section Steps.
  Variable p : platform.
  Hypothesis POK : PlatformOK p.
  Variable m : mmode.
  Hypothesis Hm : mode_ok m.
  Variable pn : list N.
  Local Opaque subtree_output stream.
  Notation K := (mkey m).
  Notation F := (mflags m).

  Definition Sim (ms : mstate) (ss : sstate) : Prop :=
    Forall2 (Rh m) (st_hashers ms) (ss_h ss) /\ Forall2 Rr (st_readers ms) (ss_r ss) /\
    st_vals ms = ss_v ss /\ Forall (fun v => length v = 32%nat) (ss_v ss).

  Definition step_ok (o : op) : Prop := forall ms ss ss' out,
    Sim ms ss -> sstep m ss o = Some (ss', out) ->
    exists ms', step p pn m K F ms o = Ok (ms', out) /\ Sim ms' ss'.

  Ltac start :=
    intros [hs rs vs] [ah ar av] ss' out (HH & HRr & HV & HL) Hs;
    cbn [st_hashers st_readers st_vals ss_h ss_r ss_v] in *; subst av;
    unfold sstep in Hs; cbn [ss_h ss_r ss_v] in Hs; unfold snth in Hs;
    cbn [step st_hashers st_readers st_vals].

  (* instance i of the specification state exists, so does the related hasher *)
  Ltac get_h i x h En Hn HR :=
    match goal with
    | HH : Forall2 (Rh m) _ ?ah, Hs : _ = Some _ |- _ =>
        revert Hs; destruct (nth_error ah i) as [x|] eqn:En; [|discriminate]; intros Hs;
        destruct (Forall2_nth _ _ _ _ _ HH En) as (h & Hn & HR);
        rewrite (get_nth _ _ _ Hn); cbn [bind]
    end.
  Ltac get_r j x r En Hn HR :=
    match goal with
    | HRr : Forall2 Rr _ ?ar, Hs : _ = Some _ |- _ =>
        revert Hs; destruct (nth_error ar j) as [x|] eqn:En; [|discriminate]; intros Hs;
        destruct (Forall2_nth _ _ _ _ _ HRr En) as (r & Hn & HR);
        rewrite (get_nth _ _ _ Hn); cbn [bind]
    end.
  Ltac done_sim :=
    eexists; split; [reflexivity|];
    unfold Sim, set_hasher, set_reader, add_hasher, add_reader, add_val;
    cbn [st_hashers st_readers st_vals ss_h ss_r ss_v];
    repeat split; try assumption.

  Lemma step_new : step_ok OpNew.
  Proof.
    start. injection Hs as <- <-. done_sim. apply Forall2_snoc; [assumption|]. apply (Rh_new p POK m Hm).
  Qed.

  Lemma step_update i b : step_ok (OpUpdate i b).
  Proof.
    start. get_h i x h En Hn HR.
    destruct (room (si_off x) (len (si_bytes x) + len b)) eqn:Er; [|discriminate]. injection Hs as <- <-.
    destruct (sim_update p POK m Hm h x b HR Er) as (h' & Hu & HR'). rewrite Hu. cbn [bind].
    done_sim. apply Forall2_set_nth; assumption.
  Qed.

  Lemma step_write i b : step_ok (OpWrite i b).
  Proof.
    start. get_h i x h En Hn HR.
    destruct (room (si_off x) (len (si_bytes x) + len b)) eqn:Er; [|discriminate]. injection Hs as <- <-.
    destruct (sim_update p POK m Hm h x b HR Er) as (h' & Hu & HR'). unfold hasher_write. rewrite Hu. cbn [bind].
    done_sim. apply Forall2_set_nth; assumption.
  Qed.

  Lemma step_update_reader i data script : step_ok (OpUpdateReader i data script).
  Proof.
    start. get_h i x h En Hn HR.
    destruct ((si_off x =? 0) && (len (si_bytes x ++ data) <? 2 ^ 64)) eqn:Eg; [|discriminate].
    apply andb_true_iff in Eg. destruct Eg as [E0 El]. apply N.eqb_eq in E0. apply N.ltb_lt in El.
    destruct HR as [Hoff HI]. rewrite E0 in HI.
    destruct (update_reader_refines p POK K F (HK m Hm) h (si_bytes x) data script HI El) as (h' & r & Hu & HI' & Hr).
    rewrite Hu. cbn [bind].
    destruct (snd (delivered (copy_fuel data script) data script)) as [|k|] eqn:Ed; [| |discriminate].
    - injection Hs as <- <-. subst r. done_sim. apply Forall2_set_nth; [assumption|].
      split; cbn [si_off si_bytes]; [exact Hoff|]. rewrite E0. exact HI'.
    - injection Hs as <- <-. subst r. done_sim. apply Forall2_set_nth; [assumption|].
      split; cbn [si_off si_bytes]; [exact Hoff|]. rewrite E0. exact HI'.
  Qed.

  Lemma step_finalize i : step_ok (OpFinalize i).
  Proof.
    start. get_h i x h En Hn HR.
    destruct (si_off x =? 0) eqn:E0; [|discriminate]. apply N.eqb_eq in E0. injection Hs as <- <-.
    rewrite (sim_finalize p POK m Hm h x HR E0). cbn [bind]. done_sim.
  Qed.

  Lemma step_finalize_reset i : step_ok (OpTFinalizeReset i).
  Proof.
    start. get_h i x h En Hn HR.
    destruct (si_off x =? 0) eqn:E0; [|discriminate]. apply N.eqb_eq in E0. injection Hs as <- <-.
    rewrite (sim_finalize p POK m Hm h x HR E0). cbn [bind]. done_sim.
    apply Forall2_set_nth; [assumption|]. apply (sim_reset p POK m Hm h x HR).
  Qed.

  Lemma step_xof i n : step_ok (OpXof i n).
  Proof.
    start. get_h i x h En Hn HR.
    destruct ((si_off x =? 0) && (n <=? max_position)) eqn:E; [|discriminate].
    apply andb_true_iff in E. destruct E as [E0 E1]. apply N.eqb_eq in E0. apply N.leb_le in E1.
    unfold max_position in E1. injection Hs as <- <-.
    rewrite (sim_final_output p POK m Hm h x HR E0). cbn [bind].
    destruct (sim_xof p POK m Hm h x n HR E0 E1) as (r' & Hf & HR'). rewrite Hf. cbn [bind]. done_sim.
  Qed.

  Lemma step_txof i n : step_ok (OpTXof i n).
  Proof.
    start. get_h i x h En Hn HR.
    destruct ((si_off x =? 0) && (n <=? max_position)) eqn:E; [|discriminate].
    apply andb_true_iff in E. destruct E as [E0 E1]. apply N.eqb_eq in E0. apply N.leb_le in E1.
    unfold max_position in E1. injection Hs as <- <-.
    rewrite (sim_final_output p POK m Hm h x HR E0). cbn [bind].
    destruct (sim_xof p POK m Hm h x n HR E0 E1) as (r' & Hf & HR'). rewrite Hf. cbn [bind]. done_sim.
    apply Forall2_snoc; assumption.
  Qed.

  Lemma step_txof_reset i n : step_ok (OpTXofReset i n).
  Proof.
    start. get_h i x h En Hn HR.
    destruct ((si_off x =? 0) && (n <=? max_position)) eqn:E; [|discriminate].
    apply andb_true_iff in E. destruct E as [E0 E1]. apply N.eqb_eq in E0. apply N.leb_le in E1.
    unfold max_position in E1. injection Hs as <- <-.
    rewrite (sim_final_output p POK m Hm h x HR E0). cbn [bind].
    destruct (sim_xof p POK m Hm h x n HR E0 E1) as (r' & Hf & HR'). rewrite Hf. cbn [bind]. done_sim.
    - apply Forall2_set_nth; [assumption|]. apply (sim_reset p POK m Hm h x HR).
    - apply Forall2_snoc; assumption.
  Qed.

  Lemma step_count i : step_ok (OpCount i).
  Proof.
    start. get_h i x h En Hn HR. injection Hs as <- <-.
    rewrite (sim_count p POK m Hm h x HR). cbn [bind]. done_sim.
  Qed.

  Lemma step_clone i : step_ok (OpClone i).
  Proof.
    start. get_h i x h En Hn HR. injection Hs as <- <-. done_sim. apply Forall2_snoc; assumption.
  Qed.

  Lemma step_reset i : step_ok (OpReset i).
  Proof.
    start. get_h i x h En Hn HR. injection Hs as <- <-. done_sim.
    apply Forall2_set_nth; [assumption|]. apply (sim_reset p POK m Hm h x HR).
  Qed.

  Lemma step_set_offset i off : step_ok (OpSetOffset i off).
  Proof.
    start. get_h i x h En Hn HR.
    destruct ((len (si_bytes x) =? 0) && (off mod 1024 =? 0) && (off <? 2 ^ 64)) eqn:E; [|discriminate].
    apply andb_true_iff in E. destruct E as [E E2]. apply andb_true_iff in E. destruct E as [E0 E1].
    apply N.eqb_eq in E0, E1. apply N.ltb_lt in E2. injection Hs as <- <-.
    destruct (sim_set_offset p POK m Hm h x off HR E0 E1 E2) as (h' & Hu & HR'). rewrite Hu. cbn [bind].
    done_sim. apply Forall2_set_nth; assumption.
  Qed.

  Lemma step_non_root i : step_ok (OpNonRoot i).
  Proof.
    start. get_h i x h En Hn HR.
    destruct (0 <? len (si_bytes x)) eqn:E; [|discriminate]. apply N.ltb_lt in E.
    cbv zeta in Hs. injection Hs as <- <-.
    destruct (sim_non_root p POK m Hm h x HR E) as [Hf Hl]. rewrite Hf. cbn [bind].
    done_sim. apply Forall_snoc; assumption.
  Qed.

  Lemma step_one_shot b : step_ok (OpOneShot b).
  Proof.
    start. destruct (len b <? 2 ^ 64) eqn:E; [|discriminate]. apply N.ltb_lt in E. injection Hs as <- <-.
    rewrite (one_shot_spec p POK m b Hm E). cbn [bind]. done_sim.
  Qed.

  Lemma sval_ok hs rs vs v c : Forall (fun v => length v = 32%nat) vs -> sval vs v = Some c ->
    val_of (mkState hs rs vs) v = Ok c /\ length c = 32%nat.
  Proof.
    intros HL. destruct v as [cv|k]; cbn [sval val_of st_vals].
    - destruct (Nat.eqb (length cv) 32) eqn:E; [|discriminate]. apply Nat.eqb_eq in E.
      intros H. injection H as <-. auto.
    - unfold snth. intros H. split; [apply get_nth; exact H|].
      rewrite Forall_forall in HL. apply HL. apply (nth_error_In _ _ H).
  Qed.

  Lemma step_merge_non_root l r : step_ok (OpMergeNonRoot l r).
  Proof.
    start. destruct (sval vs l) as [lv|] eqn:El; [|discriminate]. destruct (sval vs r) as [rv|] eqn:Er; [|discriminate].
    cbv zeta in Hs. injection Hs as <- <-.
    destruct (sval_ok hs rs vs l lv HL El) as [Vl Ll]. destruct (sval_ok hs rs vs r rv HL Er) as [Vr Lr].
    rewrite Vl, Vr. cbn [bind]. cbv zeta.
    rewrite (merge_non_root_spec p POK K F (HK m Hm) lv rv Ll Lr).
    done_sim. apply Forall_snoc; [assumption|]. apply cvs_length.
    apply (parent_wf m Hm lv rv Ll Lr).
  Qed.

  Lemma step_merge_root l r : step_ok (OpMergeRoot l r).
  Proof.
    start. destruct (sval vs l) as [lv|] eqn:El; [|discriminate]. destruct (sval vs r) as [rv|] eqn:Er; [|discriminate].
    injection Hs as <- <-.
    destruct (sval_ok hs rs vs l lv HL El) as [Vl Ll]. destruct (sval_ok hs rs vs r rv HL Er) as [Vr Lr].
    rewrite Vl, Vr. cbn [bind].
    rewrite (merge_root_spec p POK K F (HK m Hm) lv rv Ll Lr). cbn [bind]. done_sim.
  Qed.

  Lemma step_merge_xof l r : step_ok (OpMergeXof l r).
  Proof.
    start. destruct (sval vs l) as [lv|] eqn:El; [|discriminate]. destruct (sval vs r) as [rv|] eqn:Er; [|discriminate].
    injection Hs as <- <-.
    destruct (sval_ok hs rs vs l lv HL El) as [Vl Ll]. destruct (sval_ok hs rs vs r rv HL Er) as [Vr Lr].
    rewrite Vl, Vr. cbn [bind]. done_sim.
    apply Forall2_snoc; [assumption|]. destruct (parent_wf m Hm lv rv Ll Lr) as [Hwf Hc].
    unfold merge_subtrees_inner. split; [apply Rd_new; assumption|]. cbn [sr_pos]. lia.
  Qed.

  Lemma step_context_key ctx : step_ok (OpContextKey ctx).
  Proof.
    start. destruct (len ctx <? 2 ^ 64) eqn:E; [|discriminate]. apply N.ltb_lt in E.
    cbv zeta in Hs. injection Hs as <- <-.
    rewrite (context_key_spec p POK ctx E). cbn [bind]. done_sim.
    apply Forall_snoc; [assumption|]. apply context_key_length.
  Qed.

  Lemma step_reader_new i : step_ok (OpReaderNew i).
  Proof.
    start. get_h i x h En Hn HR.
    destruct (si_off x =? 0) eqn:E0; [|discriminate]. apply N.eqb_eq in E0. injection Hs as <- <-.
    rewrite (sim_final_output p POK m Hm h x HR E0). cbn [bind]. done_sim.
    apply Forall2_snoc; [assumption|]. apply (Rr_new p POK m Hm h x HR E0).
  Qed.

  Lemma step_fill j n : step_ok (OpFill j n).
  Proof.
    start. get_r j x r En Hn HR. destruct HR as [HRd Hpos].
    destruct (sr_pos x + n <=? max_position) eqn:E; [|discriminate]. apply N.leb_le in E. unfold max_position in E.
    injection Hs as <- <-.
    destruct (reader_fill_spec p POK r _ _ n HRd E) as (r' & Hf & HR'). rewrite Hf. cbn [bind]. done_sim.
    apply Forall2_set_nth; [assumption|]. split; [exact HR'|exact E].
  Qed.

  Lemma step_read j n : step_ok (OpRead j n).
  Proof.
    start. get_r j x r En Hn HR. destruct HR as [HRd Hpos].
    destruct (sr_pos x + n <=? max_position) eqn:E; [|discriminate]. apply N.leb_le in E. unfold max_position in E.
    injection Hs as <- <-.
    destruct (reader_fill_spec p POK r _ _ n HRd E) as (r' & Hf & HR'). rewrite Hf. cbn [bind]. done_sim.
    apply Forall2_set_nth; [assumption|]. split; [exact HR'|exact E].
  Qed.

  Lemma step_pos j : step_ok (OpPos j).
  Proof.
    start. get_r j x r En Hn HR. destruct HR as [HRd Hpos]. injection Hs as <- <-.
    rewrite (reader_position_spec r _ _ HRd Hpos). cbn [bind]. done_sim.
  Qed.

  Lemma step_set_pos j q : step_ok (OpSetPos j q).
  Proof.
    start. get_r j x r En Hn HR. destruct HR as [HRd Hpos].
    destruct (q <=? max_position) eqn:E; [|discriminate]. apply N.leb_le in E. unfold max_position in E.
    injection Hs as <- <-.
    destruct (reader_set_position_spec r _ _ q HRd E) as (r' & Hf & HR'). rewrite Hf. cbn [bind]. done_sim.
    apply Forall2_set_nth; [assumption|]. split; [exact HR'|exact E].
  Qed.

  Lemma step_seek j s : step_ok (OpSeek j s).
  Proof.
    start. get_r j x r En Hn HR. destruct HR as [HRd Hpos].
    pose proof (reader_seek_spec r _ _ s HRd Hpos) as Hsk. unfold max_position in Hs.
    destruct s as [y|d|d].
    - cbv zeta in Hs. injection Hs as <- <-. destruct Hsk as (r' & Hf & HR'). rewrite Hf. cbn [bind]. done_sim.
      apply Forall2_set_nth; [assumption|]. split; [exact HR'|]. cbn [sr_pos]. lia.
    - destruct (Z.of_N (sr_pos x) + d <? 0)%Z eqn:E.
      + injection Hs as <- <-. rewrite Hsk. cbn [bind]. done_sim.
        rewrite (set_nth_same _ _ _ Hn). exact HRr.   (* the reader is written back unchanged *)
      + cbv zeta in Hs, Hsk. injection Hs as <- <-. destruct Hsk as (r' & Hf & HR'). rewrite Hf. cbn [bind]. done_sim.
        apply Forall2_set_nth; [assumption|]. split; [exact HR'|]. cbn [sr_pos]. lia.
    - injection Hs as <- <-. rewrite Hsk. cbn [bind]. done_sim.
      rewrite (set_nth_same _ _ _ Hn). exact HRr.
  Qed.

  Lemma step_reader_clone j : step_ok (OpReaderClone j).
  Proof.
    start. get_r j x r En Hn HR. injection Hs as <- <-. done_sim. apply Forall2_snoc; assumption.
  Qed.

  Lemma step_tdigest_new : step_ok OpTDigestNew.
  Proof.
    intros [hs rs vs] [ah ar av] ss' out (HH & HRr & HV & HL) Hs.
    cbn [st_hashers st_readers st_vals ss_h ss_r ss_v] in *. subst av.
    unfold sstep in Hs. cbn [ss_h ss_r ss_v] in Hs.
    destruct (tdigest_inv m _ _ Hs) as [Em E]. injection E as <- <-.
    rewrite (tdigest_step p pn m _ Em). done_sim.
    apply Forall2_snoc; [assumption|]. apply (Rh_new p POK m Hm).
  Qed.

  Lemma step_tkey_init : step_ok OpTKeyInit.
  Proof.
    intros [hs rs vs] [ah ar av] ss' out (HH & HRr & HV & HL) Hs.
    cbn [st_hashers st_readers st_vals ss_h ss_r ss_v] in *. subst av.
    unfold sstep in Hs. cbn [ss_h ss_r ss_v] in Hs.
    destruct (tkeyinit_inv m _ _ Hs) as [Em E]. injection E as <- <-.
    rewrite (tkeyinit_step p pn m _ Em). done_sim.
    apply Forall2_snoc; [assumption|]. apply (Rh_new p POK m Hm).
  Qed.

  (* every op: the trait methods are the inherent methods (the same machine steps, C16); the ops the
     specification machine does not interpret (update_reader, Debug, Zeroize) are never accepted *)
  Theorem step_refines_spec o : step_ok o.
  Proof.
    destruct o.
    - apply step_new.
    - apply step_update.
    - apply step_write.
    - apply step_update_reader.
    - apply step_finalize.
    - apply step_xof.
    - apply step_count.
    - apply step_clone.
    - apply step_reset.
    - apply step_set_offset.
    - apply step_non_root.
    - apply step_one_shot.
    - apply step_merge_non_root.
    - apply step_merge_root.
    - apply step_merge_xof.
    - apply step_context_key.
    - apply step_reader_new.
    - apply step_fill.
    - apply step_read.
    - apply step_pos.
    - apply step_set_pos.
    - apply step_seek.
    - apply step_reader_clone.
    - exact (step_update i b).
    - exact (step_reset i).
    - exact (step_finalize i).
    - apply step_finalize_reset.
    - apply step_txof.
    - apply step_txof_reset.
    - apply step_tkey_init.
    - apply step_tdigest_new.
    - intros ms ss ss' out _ Hs. discriminate Hs.
    - intros ms ss ss' out _ Hs. discriminate Hs.
    - intros ms ss ss' out _ Hs. discriminate Hs.
    - intros ms ss ss' out _ Hs. discriminate Hs.
  Qed.

  (* any history from related states *)
  Theorem run_refines_spec : forall ops ms ss obs,
    Sim ms ss -> srun m ss ops = Some obs -> run_ops p pn m K F ms ops [] = (obs, Ok tt).
  Proof.
    induction ops as [|o ops IH]; intros ms ss obs HS Hr.
    - cbn [srun run_ops rev] in *. injection Hr as <-. reflexivity.
    - cbn [srun run_ops] in *.
      destruct (sstep m ss o) as [[ss' out]|] eqn:Es; [|discriminate].
      destruct (srun m ss' ops) as [rest|] eqn:Er; [|discriminate]. injection Hr as <-.
      destruct (step_refines_spec o ms ss ss' out HS Es) as (ms' & Hst & HS').
      rewrite Hst. rewrite run_ops_acc. rewrite (IH ms' ss' rest HS' Er). cbn [fst snd].
      rewrite app_nil_r, rev_involutive. reflexivity.
  Qed.

  Lemma Sim_init : Sim (mkState [new_internal K F] [] []) (mkSS [mkSI [] 0] [] []).
  Proof.
    unfold Sim. cbn [st_hashers st_readers st_vals ss_h ss_r ss_v].
    split; [constructor; [apply (Rh_new p POK m Hm)|constructor]|].
    split; [constructor|]. split; [reflexivity|constructor].
  Qed.
End Steps.

(* ---- the two machines ------------------------------------------------------------------------------ *)
Theorem machine_refines_spec : forall p, PlatformOK p -> forall pname m ops obs,
  mode_ok m -> spec_run_case m ops = Some obs -> run_case p pname m ops = (obs, Ok tt).
Proof.
  intros p POK pname m ops obs Hm Hs. unfold run_case. rewrite (mode_init_spec p POK m Hm).
  apply (run_refines_spec p POK m Hm pname ops _ _ obs (Sim_init p POK m Hm) Hs).
Qed.

(* consequences: the implementation model never panics on a history the specification accepts, and the
   specification machine's observations do not depend on the platform or on the platform name *)
Corollary machine_no_panic : forall p, PlatformOK p -> forall pname m ops obs,
  mode_ok m -> spec_run_case m ops = Some obs -> snd (run_case p pname m ops) = Ok tt.
Proof. intros p POK pname m ops obs Hm Hs. rewrite (machine_refines_spec p POK pname m ops obs Hm Hs). reflexivity. Qed.

Corollary machine_platform_independent : forall p1 p2, PlatformOK p1 -> PlatformOK p2 -> forall pn1 pn2 m ops obs,
  mode_ok m -> spec_run_case m ops = Some obs -> run_case p1 pn1 m ops = run_case p2 pn2 m ops.
Proof.
  intros p1 p2 P1 P2 pn1 pn2 m ops obs Hm Hs.
  rewrite (machine_refines_spec p1 P1 pn1 m ops obs Hm Hs), (machine_refines_spec p2 P2 pn2 m ops obs Hm Hs). reflexivity.
Qed.
