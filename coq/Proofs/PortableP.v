(* The portable kernel model (with the repository's own IV and MSG_SCHEDULE, read
   from the source by the translator) computes the specification's compression
   function, for all arguments. *)
From Coq Require Import NArith List Bool Lia.
From V Require Import Base.Res Base.Word Base.MachInt gen.GenConsts gen.GenFormulas
  Spec.Compress Model.Portable.
Import ListNotations.
Open Scope N_scope.

(* generated constants agree with the paper's *)
Lemma rs_IV_is_spec : rs_IV = IV.
Proof. reflexivity. Qed.

Lemma rs_flags_are_spec :
  rs_flag_CHUNK_START = CHUNK_START /\ rs_flag_CHUNK_END = CHUNK_END /\ rs_flag_PARENT = PARENT /\
  rs_flag_ROOT = ROOT /\ rs_flag_KEYED_HASH = KEYED_HASH /\
  rs_flag_DERIVE_KEY_CONTEXT = DERIVE_KEY_CONTEXT /\ rs_flag_DERIVE_KEY_MATERIAL = DERIVE_KEY_MATERIAL.
Proof. repeat split; reflexivity. Qed.

Lemma rs_lens : rs_OUT_LEN = 32 /\ rs_KEY_LEN = 32 /\ rs_BLOCK_LEN = 64 /\ rs_CHUNK_LEN = 1024 /\ rs_MAX_DEPTH = 54.
Proof. repeat split; reflexivity. Qed.

(* MSG_SCHEDULE row r is the permutation iterated r times *)
Fixpoint iter_permute (r : nat) (m : list N) : list N :=
  match r with O => m | S r' => iter_permute r' (permute m) end.

Lemma rs_MSG_SCHEDULE_is_iterated_permutation :
  rs_MSG_SCHEDULE = map (fun r => iter_permute r [0;1;2;3;4;5;6;7;8;9;10;11;12;13;14;15]) (seq 0 7).
Proof. reflexivity. Qed.

Lemma g_is_spec a b c d x y : Portable.g a b c d x y = Compress.g a b c d x y.
Proof. reflexivity. Qed.

Lemma counter_lo_hi ctr : ctr_lo ctr = counter_lo ctr /\ ctr_hi ctr = counter_hi ctr.
Proof. split; reflexivity. Qed.

(* one model round with schedule row r = one spec round on the r-times permuted message *)
Lemma round_is_spec (r : nat) s0 s1 s2 s3 s4 s5 s6 s7 s8 s9 s10 s11 s12 s13 s14 s15
      m0 m1 m2 m3 m4 m5 m6 m7 m8 m9 m10 m11 m12 m13 m14 m15 :
  (r < 7)%nat ->
  let s := [s0; s1; s2; s3; s4; s5; s6; s7; s8; s9; s10; s11; s12; s13; s14; s15] in
  let m := [m0; m1; m2; m3; m4; m5; m6; m7; m8; m9; m10; m11; m12; m13; m14; m15] in
  Portable.round s m r = Compress.round s (iter_permute r m).
Proof.
  intros Hr s m.
  do 7 (destruct r as [|r]; [reflexivity|]). lia.
Qed.

Lemma length16_inv {A} (l : list A) : length l = 16%nat ->
  exists a0 a1 a2 a3 a4 a5 a6 a7 a8 a9 a10 a11 a12 a13 a14 a15,
    l = [a0;a1;a2;a3;a4;a5;a6;a7;a8;a9;a10;a11;a12;a13;a14;a15].
Proof.
  intros H.
  do 16 (destruct l as [|? l]; [discriminate|]). destruct l; [|discriminate].
  repeat eexists.
Qed.

Lemma round_length s m : length s = 16%nat -> length m = 16%nat -> length (Compress.round s m) = 16%nat.
Proof.
  intros Hs Hm.
  destruct (length16_inv s Hs) as (s0&s1&s2&s3&s4&s5&s6&s7&s8&s9&s10&s11&s12&s13&s14&s15&->).
  destruct (length16_inv m Hm) as (m0&m1&m2&m3&m4&m5&m6&m7&m8&m9&m10&m11&m12&m13&m14&m15&->).
  cbn [Compress.round].
  repeat match goal with |- context [Compress.g ?a ?b ?c ?d ?x ?y] => destruct (Compress.g a b c d x y) as [[[? ?] ?] ?] end.
  reflexivity.
Qed.

Lemma permute_length m : length (permute m) = 16%nat.
Proof. unfold permute. rewrite map_length. reflexivity. Qed.

Lemma iter_permute_S r m : iter_permute (S r) m = permute (iter_permute r m).
Proof. revert m. induction r as [|r IH]; intros m; [reflexivity|]. cbn [iter_permute] in *. rewrite IH. reflexivity. Qed.

Lemma iter_permute_length r m : length m = 16%nat -> length (iter_permute r m) = 16%nat.
Proof. destruct r; intros H; [exact H|]. rewrite iter_permute_S. apply permute_length. Qed.

(* the seven model rounds = the spec's `rounds 7` *)
Lemma seven_rounds_spec s m : length s = 16%nat -> length m = 16%nat ->
  Portable.round (Portable.round (Portable.round (Portable.round (Portable.round (Portable.round
    (Portable.round s m 0) m 1) m 2) m 3) m 4) m 5) m 6 = rounds 7 s m.
Proof.
  intros Hs Hm.
  destruct (length16_inv m Hm) as (m0&m1&m2&m3&m4&m5&m6&m7&m8&m9&m10&m11&m12&m13&m14&m15&Em).
  assert (step : forall r s', (r < 7)%nat -> length s' = 16%nat ->
            Portable.round s' m r = Compress.round s' (iter_permute r m)).
  { intros r s' Hr Hs'.
    destruct (length16_inv s' Hs') as (a0&a1&a2&a3&a4&a5&a6&a7&a8&a9&a10&a11&a12&a13&a14&a15&->).
    rewrite Em. apply round_is_spec. exact Hr. }
  assert (L : forall r s', length s' = 16%nat -> length (Compress.round s' (iter_permute r m)) = 16%nat).
  { intros r s' Hs'. apply round_length; [exact Hs'|apply iter_permute_length, Hm]. }
  cbn [rounds].
  rewrite (step 0%nat s) by (lia || assumption). cbn [iter_permute].
  set (s1 := Compress.round s m). assert (H1 : length s1 = 16%nat) by (apply (L 0%nat); assumption).
  rewrite (step 1%nat s1) by (lia || assumption). cbn [iter_permute].
  set (s2 := Compress.round s1 (permute m)). assert (H2 : length s2 = 16%nat) by (apply (L 1%nat); assumption).
  rewrite (step 2%nat s2) by (lia || assumption). cbn [iter_permute].
  set (s3 := Compress.round s2 _). assert (H3 : length s3 = 16%nat) by (apply (L 2%nat); assumption).
  rewrite (step 3%nat s3) by (lia || assumption). cbn [iter_permute].
  set (s4 := Compress.round s3 _). assert (H4 : length s4 = 16%nat) by (apply (L 3%nat); assumption).
  rewrite (step 4%nat s4) by (lia || assumption). cbn [iter_permute].
  set (s5 := Compress.round s4 _). assert (H5 : length s5 = 16%nat) by (apply (L 4%nat); assumption).
  rewrite (step 5%nat s5) by (lia || assumption). cbn [iter_permute].
  set (s6 := Compress.round s5 _). assert (H6 : length s6 = 16%nat) by (apply (L 5%nat); assumption).
  rewrite (step 6%nat s6) by (lia || assumption). cbn [iter_permute].
  reflexivity.
Qed.

Lemma rounds7_length s m : length s = 16%nat -> length m = 16%nat -> length (rounds 7 s m) = 16%nat.
Proof.
  intros Hs Hm. cbn [rounds].
  repeat (apply round_length; [|first [apply permute_length | exact Hm]]). exact Hs.
Qed.

Lemma words_of_bytes_length : forall (n : nat) (l : list N),
  length l = (4 * n)%nat -> length (words_of_bytes l) = n.
Proof.
  induction n as [|n IH]; intros l H.
  - destruct l; [reflexivity|discriminate].
  - destruct l as [|b0 [|b1 [|b2 [|b3 tl]]]]; try (cbn in H; lia).
    cbn [words_of_bytes length]. f_equal. apply IH. cbn [length] in H. lia.
Qed.

Theorem compress_pre_is_spec cv block bl ctr fl :
  length cv = 8%nat -> length block = 64%nat ->
  let st := compress_pre cv block bl ctr fl in
  xor_pairs (firstn 8 st) (skipn 8 st) ++ xor_pairs (skipn 8 st) cv = compress cv block bl ctr fl.
Proof.
  intros Hcv Hb. unfold compress_pre, compress. cbv zeta.
  rewrite rs_IV_is_spec.
  destruct (counter_lo_hi ctr) as [-> ->].
  rewrite seven_rounds_spec.
  - unfold xor_pairs, xor_lists. reflexivity.
  - rewrite !app_length, Hcv. reflexivity.
  - apply words_of_bytes_length. rewrite Hb. reflexivity.
Qed.

Theorem compress_in_place_is_spec cv block bl ctr fl :
  length cv = 8%nat -> length block = 64%nat ->
  compress_in_place cv block bl ctr fl = firstn 8 (compress cv block bl ctr fl).
Proof.
  intros Hcv Hb. unfold compress_in_place. rewrite <- (compress_pre_is_spec cv block bl ctr fl Hcv Hb).
  cbv zeta. set (st := compress_pre cv block bl ctr fl).
  assert (Hst : length st = 16%nat).
  { unfold st, compress_pre. cbv zeta. rewrite seven_rounds_spec.
    - apply rounds7_length.
      + rewrite !app_length, Hcv. reflexivity.
      + apply words_of_bytes_length. rewrite Hb. reflexivity.
    - rewrite !app_length, Hcv. reflexivity.
    - apply words_of_bytes_length. rewrite Hb. reflexivity. }
  assert (Hx : length (xor_pairs (firstn 8 st) (skipn 8 st)) = 8%nat).
  { unfold xor_pairs. rewrite map_length, combine_length, firstn_length, skipn_length, Hst. reflexivity. }
  rewrite firstn_app, Hx. change (8 - 8)%nat with 0%nat. rewrite firstn_O, app_nil_r.
  symmetry. apply firstn_all2. lia.
Qed.

Theorem compress_xof_is_spec cv block bl ctr fl :
  length cv = 8%nat -> length block = 64%nat ->
  compress_xof cv block bl ctr fl = bytes_of_words (compress cv block bl ctr fl).
Proof.
  intros Hcv Hb. unfold compress_xof. f_equal. apply compress_pre_is_spec; assumption.
Qed.

Lemma compress_length cv block bl ctr fl :
  length cv = 8%nat -> length block = 64%nat -> length (compress cv block bl ctr fl) = 16%nat.
Proof.
  intros Hcv Hb. unfold compress.
  assert (Hst : length (rounds 7 (cv ++ firstn 4 IV ++ [counter_lo ctr; counter_hi ctr; bl; fl]) (words_of_bytes block)) = 16%nat).
  { apply rounds7_length.
    - rewrite !app_length, Hcv. reflexivity.
    - apply words_of_bytes_length. rewrite Hb. reflexivity. }
  set (st := rounds 7 _ _) in *.
  unfold xor_lists. rewrite app_length, !map_length, !combine_length, firstn_length, skipn_length, Hst, Hcv. reflexivity.
Qed.
