(* C01: the one-shot functions of the Rust crate model compute the specification
   (instantiating the compression-parametric development with the real
   compression function). *)
From V Require Import Proofs.ListP.
From V Require Import Base.Res Base.Word Base.MachInt gen.GenConsts gen.GenFormulas
  Spec.Compress Spec.Tree Spec.Blake3 Model.Portable Model.Platform Model.RsChunk Model.RsWide
  Proofs.PortableP Proofs.ChunkP Proofs.TreeP Proofs.FormulasP Proofs.WideP.
Open Scope N_scope.

Lemma spec_c8_cip cv b bl c f : length cv = 8%nat -> length b = 64%nat ->
  Portable.compress_in_place cv b bl c f = spec_c8 cv b bl c f.
Proof. intros. apply compress_in_place_is_spec; assumption. Qed.

Lemma spec_c8_len cv b bl c f : length cv = 8%nat -> length b = 64%nat ->
  length (spec_c8 cv b bl c f) = 8%nat.
Proof.
  intros H1 H2. unfold spec_c8. rewrite firstn_length, compress_length by assumption. reflexivity.
Qed.

Lemma nth_range_32 (l : list N) : (32 <= length l)%nat ->
  map (fun i => nth (N.to_nat (i mod 64)) l 0) (nrange 0 32) = firstn 32 l.
Proof.
  intros H.
  do 32 (destruct l as [|? l]; [cbn [length] in H; lia|]).
  reflexivity.
Qed.

Lemma firstn32_bytes_of_words ws : length ws = 16%nat ->
  firstn 32 (bytes_of_words ws) = bytes_of_words (firstn 8 ws).
Proof.
  intros H. destruct (length16_inv ws H) as (a0&a1&a2&a3&a4&a5&a6&a7&a8&a9&a10&a11&a12&a13&a14&a15&->).
  reflexivity.
Qed.

(* first 32 bytes of the output stream = the root chaining value *)
Lemma stream_32 o : length (o_cv o) = 8%nat -> length (o_block o) = 64%nat ->
  stream spec_c64 o 0 32 =
  bytes_of_words (spec_c8 (o_cv o) (o_block o) (o_blen o) 0 (N.lor (o_flags o) ROOT)).
Proof.
  intros H1 H2. unfold stream, stream_byte.
  assert (Hdiv : forall i, In i (nrange 0 32) -> i / 64 = 0).
  { intros i Hi. cbn in Hi. repeat (destruct Hi as [<-|Hi]; [reflexivity|]). contradiction. }
  rewrite (map_ext_in _ (fun i => nth (N.to_nat (i mod 64)) (root_block spec_c64 o 0) 0)).
  2:{ intros i Hi. rewrite (Hdiv i Hi). reflexivity. }
  unfold root_block, spec_c64, spec_c8.
  rewrite nth_range_32.
  - apply firstn32_bytes_of_words. apply compress_length; assumption.
  - rewrite bytes_of_words_length, compress_length by assumption. lia.
Qed.

Lemma stream_length c64 o pos n : length (stream c64 o pos n) = n.
Proof.
  unfold stream. rewrite map_length. revert pos. induction n as [|n IH]; intros; [reflexivity|].
  cbn [nrange length]. rewrite IH. reflexivity.
Qed.

Section C01.
  Variable p : platform.
  Hypothesis POK : PlatformOK p.

  (* any mode key/flags: hash_all_at_once then root_hash = first 32 bytes of the spec stream *)
  Lemma root_hash_spec K F input :
    length K = 8%nat -> len input < 2 ^ 64 ->
    (o <- hash_all_at_once p input K F ;; out_root_hash p o) =
    Ok (stream spec_c64 (subtree_output spec_c8 tree_height K F 0 input) 0 32).
  Proof.
    intros HK H64.
    rewrite (hash_all_at_once_spec spec_c8 p POK spec_c8_cip spec_c8_len K F HK input H64). cbn [bind].
    destruct (subtree_output_root_wf spec_c8 p POK spec_c8_cip spec_c8_len K F HK input H64) as [[W1 W2] Hctr].
    unfold out_root_hash. rewrite Hctr. change (0 =? 0) with true. cbn [check bind].
    rewrite (ok_cip p POK), spec_c8_cip by assumption.
    rewrite stream_32 by assumption. reflexivity.
  Qed.

  Theorem rs_hash_spec input :
    len input < 2 ^ 64 -> rs_hash p input = Ok (b3_hash input).
  Proof.
    intros H. unfold rs_hash. rewrite rs_IV_is_spec.
    apply (root_hash_spec IV 0 input); [reflexivity|exact H].
  Qed.

  Theorem rs_keyed_hash_spec key input :
    length key = 32%nat -> len input < 2 ^ 64 -> rs_keyed_hash p key input = Ok (b3_keyed_hash key input).
  Proof.
    intros Hk H. unfold rs_keyed_hash.
    apply (root_hash_spec (words_of_bytes key) KEYED_HASH input); [|exact H].
    apply words_of_bytes_length. rewrite Hk. reflexivity.
  Qed.

  Theorem rs_derive_key_spec context material :
    len context < 2 ^ 64 -> len material < 2 ^ 64 ->
    rs_derive_key p context material = Ok (b3_derive_key context material).
  Proof.
    intros Hc Hm. unfold rs_derive_key, rs_hash_derive_key_context. rewrite rs_IV_is_spec.
    change rs_flag_DERIVE_KEY_CONTEXT with DERIVE_KEY_CONTEXT. change rs_flag_DERIVE_KEY_MATERIAL with DERIVE_KEY_MATERIAL.
    rewrite (root_hash_spec IV DERIVE_KEY_CONTEXT context) by (try reflexivity; exact Hc). cbn [bind].
    set (ck := stream spec_c64 _ 0 32).
    apply (root_hash_spec (words_of_bytes ck) DERIVE_KEY_MATERIAL material); [|exact Hm].
    apply words_of_bytes_length. unfold ck. rewrite stream_length. reflexivity.
  Qed.
End C01.
