(* C11: reader, mmap and Write adapters hash exactly the bytes of their source.
   Statements only; proofs in Proofs/IoP.v.  The reader is an oracle: any finite
   script of results.  `delivered` is what the reader yields (independent of the
   hasher); `updates` feeds pieces to Hasher::update. *)
From Coq Require Import NArith List Bool.
From V Require Import Base.Res Base.Word gen.GenConsts Spec.Tree Model.Platform Model.RsChunk Model.RsHasher
  Model.RsIo Proofs.IoP Proofs.HasherP Proofs.C02P.
Import ListNotations.
Open Scope N_scope.

(* update_reader = update with exactly the delivered pieces; Ok(total) at EOF, the
   error is returned otherwise; Interrupted never escapes (copy_result has no such case) *)
Theorem C11_copy_wide_spec : forall p fuel h data script total h',
  total + nlen data < 2 ^ 64 ->
  updates p h (fst (delivered fuel data script)) = Ok h' ->
  copy_wide fuel p h data script total =
  match snd (delivered fuel data script) with
  | EndEof => Ok (h', CopyOk (total + nlen (concat (fst (delivered fuel data script)))))
  | EndErr k => Ok (h', CopyErr k)
  | EndFuel => OutOfFuel
  end.
Proof. exact copy_wide_spec. Qed.

(* the delivered pieces are a prefix of the source, in order, without loss or duplication *)
Theorem C11_delivered_prefix : forall fuel data script,
  exists rest, data = concat (fst (delivered fuel data script)) ++ rest.
Proof. exact delivered_prefix. Qed.

Theorem C11_delivered_pieces : forall fuel data script,
  Forall (fun x => 0 < nlen x <= rs_COPY_BUF) (fst (delivered fuel data script)).
Proof. exact delivered_pieces. Qed.

(* the fuel update_reader passes is always enough *)
Theorem C11_copy_fuel_enough : forall data script, snd (delivered (copy_fuel data script) data script) <> EndFuel.
Proof. exact copy_fuel_enough. Qed.

Theorem C11_write_consumes_all : forall p h input h' n,
  hasher_write p h input = Ok (h', n) -> n = nlen input /\ hasher_update p h input = Ok h'.
Proof. exact hasher_write_consumes_all. Qed.

(* mapping decision for a regular file: map (all n bytes) iff n >= 16 KiB *)
Theorem C11_mmap_decision_regular : forall n, n < 2 ^ 62 ->
  mmap_decision (if rs_seek_offset <=? n then Some (n - rs_seek_offset) else None) true =
  if rs_MIN_MMAP <=? n then Some n else None.
Proof. exact mmap_decision_regular. Qed.

(* together with C02: after update_reader the hasher has absorbed exactly the delivered prefix
   (so finalize / count describe it), whatever the script; Ok(total) at end of file, the error otherwise *)
Theorem C11_update_reader_refines : forall p, PlatformOK p -> forall K F, length K = 8%nat -> forall h bs data script,
  InvS K F 0 h bs -> len (bs ++ data) < 2 ^ 64 ->
  exists h' r, update_reader p h data script = Ok (h', r) /\
    InvS K F 0 h' (bs ++ concat (fst (delivered (copy_fuel data script) data script))) /\
    match snd (delivered (copy_fuel data script) data script) with
    | EndEof => r = CopyOk (nlen (concat (fst (delivered (copy_fuel data script) data script))))
    | EndErr k => r = CopyErr k
    | EndFuel => False
    end.
Proof. exact update_reader_refines. Qed.

Example C11_nonvacuous :
  let data := map N.of_nat (seq 0 300) in
  let script := [RDeliver 7; RInterrupted; RDeliver 100; RInterrupted; RError 5; RDeliver 9] in
  delivered (copy_fuel data script) data script = ([firstn 7 data; firstn 100 (skipn 7 data)], EndErr 5).
Proof. vm_compute. reflexivity. Qed.

(* the functions of the modelled source are exactly the functions the model was written against
   (gen/GenApi.v is regenerated from /repo on every run; see Model/ApiSurface.v) *)
From V Require gen.GenApi Model.ApiSurface.
Theorem C11_api_io : GenApi.api_io = ApiSurface.expected_io.
Proof. reflexivity. Qed.


(* ---- the SOURCE TEXT of src/io.rs and of the reader / Write / mmap / rayon wrappers of src/lib.rs, translated
   statement by statement (gen/GenIo.v, regenerated on every run), is the model above.  The std / memmap2 calls are
   parameters of the translation, instantiated with: any reader that follows a script (scripted_reader: at most the
   requested bytes, at the front of the buffer); an operating-system oracle `os` for a file; Hasher::update = the
   model's hasher_update through the representation map.  Proofs in Proofs/GenIoP.v. ---- *)
From V Require Import Base.SInt gen.GenLibLoops gen.GenXof gen.GenIo Model.RsWideSched Model.RsHasherSched
  Proofs.GenLibLoopsP Proofs.GenTraitsP Proofs.GenIoP.

Theorem C11_src_min_mmap_size : io_MINIMUM_MMAP_SIZE = rs_MIN_MMAP.
Proof. exact io_MINIMUM_MMAP_SIZE_eq. Qed.

(* A. io::copy_wide, at every fuel, Panic / OutOfFuel included *)
Theorem C11_src_copy_wide : forall (Reader : Type) (view : Reader -> list N * list read_item)
    (read : Reader -> list N -> Reader * list N * io_result N) (ek : N -> list N),
  (forall k, ek k <> [73; 110; 116; 101; 114; 114; 117; 112; 116; 101; 100]) ->
  scripted_reader Reader view read ek ->
  forall p fuel r h,
  io_copy_wide Reader read m_Hasher_update fuel r (lib_of_hasher p h)
  = res_map (fun x => (lib_of_hasher p (fst x), io_of_copy ek (snd x)))
      (copy_wide fuel p h (fst (view r)) (snd (view r)) 0).
Proof. exact io_copy_wide_eq. Qed.

(* the script of Model/RsIo.v is such a reader *)
Theorem C11_src_script_is_reader : forall ek, scripted_reader (list N * list read_item) (fun st => st) (m_read ek) ek.
Proof. exact m_read_scripted. Qed.

(* B. io::maybe_mmap_file over the oracle: result and file cursor; the decision is mmap_decision; Ok(None) leaves the
   cursor of a fresh file at the start (seek failed / returned 0 / rewound) *)
Theorem C11_src_maybe_mmap_file : forall dbg o f, (dbg = true -> os_pos_ok o = true -> f_pos f = 0) ->
  m_maybe_mmap_file dbg o f = Ok (mmf_result o f).
Proof. exact io_maybe_mmap_file_eq. Qed.

Theorem C11_src_mmap_decision : forall o f,
  snd (mmf_result o f) =
  match mmap_decision (os_seek_end o) (os_mmap_ok o) with
  | Some len => IoOk (Some (firstn (N.to_nat len) (os_bytes o)))
  | None => match os_seek_end o, os_rewind_err o with
            | Some off, Some k => if (off =? 0) || negb (off <=? isize_max - rs_seek_offset) || negb (os_mmap_ok o)
                                  then (if off =? 0 then IoOk None else IoErr k) else IoOk None
            | _, _ => IoOk None
            end
  end.
Proof. exact mmf_result_decision. Qed.

Theorem C11_src_mmap_rewound : forall o f,
  f_pos f = 0 -> snd (mmf_result o f) = IoOk None -> f_pos (fst (mmf_result o f)) = 0.
Proof. exact mmf_result_rewound. Qed.

Theorem C11_src_mmap_regular : forall o f, nlen (os_bytes o) < 2 ^ 62 -> os_mmap_ok o = true ->
  os_seek_end o = (if rs_seek_offset <=? nlen (os_bytes o) then Some (nlen (os_bytes o) - rs_seek_offset) else None) ->
  snd (mmf_result o f) = if rs_MIN_MMAP <=? nlen (os_bytes o) then IoOk (Some (os_bytes o)) else IoOk None.
Proof. exact mmf_result_regular. Qed.

(* C. the wrappers of src/lib.rs *)
Theorem C11_src_update_reader : forall (Reader : Type) (view : Reader -> list N * list read_item)
    (read : Reader -> list N -> Reader * list N * io_result N) (ek : N -> list N),
  (forall k, ek k <> [73; 110; 116; 101; 114; 114; 117; 112; 116; 101; 100]) ->
  scripted_reader Reader view read ek ->
  forall p r h,
  io_Hasher_update_reader Reader read m_Hasher_update (copy_fuel (fst (view r)) (snd (view r))) (lib_of_hasher p h) r
  = res_map (fun x => (lib_of_hasher p (fst x), io_unit_of_copy ek (snd x)))
      (update_reader p h (fst (view r)) (snd (view r))).
Proof. exact io_Hasher_update_reader_eq. Qed.

Theorem C11_src_write : forall p h input,
  io_Hasher_Write_write m_Hasher_update (lib_of_hasher p h) input
  = res_map (fun x => (lib_of_hasher p (fst x), IoOk (snd x))) (hasher_write p h input).
Proof. exact io_Hasher_Write_write_eq. Qed.

Theorem C11_src_flush : forall h, io_Hasher_Write_flush h = Ok (h, IoOk tt).
Proof. exact io_Hasher_Write_flush_eq. Qed.

Theorem C11_src_update_rayon_call : forall ext h input,
  io_Hasher_update_rayon ext h input = ext io_Join_RayonJoin h input.
Proof. exact io_Hasher_update_rayon_call. Qed.

Theorem C11_src_update_rayon : forall sch p h input,
  io_Hasher_update_rayon (m_Hasher_update_with_join sch) (lib_of_hasher p h) input
  = res_map (lib_of_hasher p) (hasher_update_sched p sch h input).
Proof. exact io_Hasher_update_rayon_eq. Qed.

(* mapped => update with the mapped bytes; not mapped => copy_wide from the (rewound) cursor; see mmap_outcome *)
Theorem C11_src_update_mmap : forall (Path : Type) (ek : N -> list N),
  (forall k, ek k <> [73; 110; 116; 101; 114; 114; 117; 112; 116; 101; 100]) ->
  forall dbg o (open : Path -> io_result file) p fuel h path,
  (forall f, open path = IoOk f -> dbg = true -> os_pos_ok o = true -> f_pos f = 0) ->
  io_Hasher_update_mmap Path file (option N) (list N) open dbg (m_seek o) (m_rewind o) None (fun _ n => Some n) (m_map o)
    (m_stream_position o) (fun m => m) m_Hasher_update (m_file_read ek o) fuel (lib_of_hasher p h) path
  = match open path with
    | IoOk f0 => mmap_outcome ek (hasher_update p) p fuel o h f0
    | IoErr k => Ok (lib_of_hasher p h, IoErr k)
    end.
Proof. exact io_Hasher_update_mmap_eq. Qed.

Theorem C11_src_update_mmap_rayon : forall (Path : Type) (ek : N -> list N),
  (forall k, ek k <> [73; 110; 116; 101; 114; 114; 117; 112; 116; 101; 100]) ->
  forall sch dbg o (open : Path -> io_result file) p fuel h path,
  (forall f, open path = IoOk f -> dbg = true -> os_pos_ok o = true -> f_pos f = 0) ->
  io_Hasher_update_mmap_rayon Path file (option N) (list N) open dbg (m_seek o) (m_rewind o) None (fun _ n => Some n) (m_map o)
    (m_stream_position o) (fun m => m) (m_Hasher_update_with_join sch) (m_file_read ek o) m_Hasher_update fuel
    (lib_of_hasher p h) path
  = match open path with
    | IoOk f0 => mmap_outcome ek (fun h m => hasher_update_sched p sch h m) p fuel o h f0
    | IoErr k => Ok (lib_of_hasher p h, IoErr k)
    end.
Proof. exact io_Hasher_update_mmap_rayon_eq. Qed.

Print Assumptions C11_api_io.
Print Assumptions C11_copy_wide_spec.
Print Assumptions C11_delivered_prefix.
Print Assumptions C11_delivered_pieces.
Print Assumptions C11_copy_fuel_enough.
Print Assumptions C11_write_consumes_all.
Print Assumptions C11_mmap_decision_regular.
Print Assumptions C11_update_reader_refines.
Print Assumptions C11_src_min_mmap_size.
Print Assumptions C11_src_copy_wide.
Print Assumptions C11_src_script_is_reader.
Print Assumptions C11_src_maybe_mmap_file.
Print Assumptions C11_src_mmap_decision.
Print Assumptions C11_src_mmap_rewound.
Print Assumptions C11_src_mmap_regular.
Print Assumptions C11_src_update_reader.
Print Assumptions C11_src_write.
Print Assumptions C11_src_flush.
Print Assumptions C11_src_update_rayon_call.
Print Assumptions C11_src_update_rayon.
Print Assumptions C11_src_update_mmap.
Print Assumptions C11_src_update_mmap_rayon.
