(* C18: the writable global symbols that `nm` finds in the
   freshly built C library objects and in the blake3 rlib (generated into gen/GenGlobals.v by tools/props/C18.py
   before this file is compiled) are exactly the CPU-feature detection caches: a new writable static breaks these
   statements. *)
From Coq Require Import NArith List Bool Lia.
From V Require Import gen.GenGlobals gen.GenDispatch Base.Res Model.Concurrency Model.Dispatch Proofs.ConcurrencyP Proofs.DispatchP.
Import ListNotations.
Open Scope N_scope.

(* "g_cpu_features" *)
Theorem C18_globals_c_is_detection_cache : globals_c = [[103; 95; 99; 112; 117; 95; 102; 101; 97; 116; 117; 114; 101; 115]].
Proof. reflexivity. Qed.

(* blake3::platform::avx2_detected::has_avx2::STORAGE, blake3::platform::avx512_detected::has_avx512::STORAGE, blake3::platform::sse41_detected::has_sse41::STORAGE *)
Theorem C18_globals_rs_are_detection_caches : globals_rs =
  [[98; 108; 97; 107; 101; 51; 58; 58; 112; 108; 97; 116; 102; 111; 114; 109; 58; 58; 97; 118; 120; 50; 95; 100; 101; 116; 101; 99; 116; 101; 100; 58; 58; 104; 97; 115; 95; 97; 118; 120; 50; 58; 58; 83; 84; 79; 82; 65; 71; 69];
   [98; 108; 97; 107; 101; 51; 58; 58; 112; 108; 97; 116; 102; 111; 114; 109; 58; 58; 97; 118; 120; 53; 49; 50; 95; 100; 101; 116; 101; 99; 116; 101; 100; 58; 58; 104; 97; 115; 95; 97; 118; 120; 53; 49; 50; 58; 58; 83; 84; 79; 82; 65; 71; 69];
   [98; 108; 97; 107; 101; 51; 58; 58; 112; 108; 97; 116; 102; 111; 114; 109; 58; 58; 115; 115; 101; 52; 49; 95; 100; 101; 116; 101; 99; 116; 101; 100; 58; 58; 104; 97; 115; 95; 115; 115; 101; 52; 49; 58; 58; 83; 84; 79; 82; 65; 71; 69]].
Proof. reflexivity. Qed.

(* Model (Model/Concurrency.v): a process = a list of instance states + the detection cache; an
   operation acts on exactly one instance (through a function f of that instance's state only) and
   may store the constant detected feature set into the cache.  In ANY global sequence of
   operations -- i.e. any interleaving of the per-instance operation sequences, including the first
   operations that trigger detection -- instance i observes exactly what it observes when its own
   operations run alone. *)
Theorem C18_interleaving_projects : forall (S A O : Type) (f : A -> S -> res (S * O)) (features : N)
  evs (p p' : proc S) os i s,
  cache_ok features (cache S p) -> nth_error (insts S p) i = Some s ->
  run_seq S A O f features p evs = Ok (p', os) ->
  exists s', run_alone S A O f s (map snd (filter (fun x => Nat.eqb (fst x) i) evs)) = Ok (s', project O i os) /\
             nth_error (insts S p') i = Some s' /\ cache_ok features (cache S p').
Proof. exact interleaving_projects. Qed.

(* the detection cache is idempotent: unknown -> the detected value, and then never changes *)
Theorem C18_detection_idempotent : forall (S : Type) (features : N) (p : proc S),
  cache_ok features (cache S p) ->
  cache S (fst (detect S features p)) = Some features /\ snd (detect S features p) = features /\
  insts S (fst (detect S features p)) = insts S p.
Proof. exact detect_cache. Qed.

(* The C cache (the model's premise "an operation may store the CONSTANT detected value"):
   get_cpu_features, translated from c/blake3_dispatch.c into gen/GenDispatch.v c_dispatch_prog.
   Whatever the CPU answers (`taken`) and whatever the local held before, every value a first call
   stores to g_cpu_features is the complete value that call returns - no partial feature set is ever
   published - and that value is a function of the CPU's answers only, so concurrent first callers
   store the same value. *)
Theorem C18_c_cache_stores_are_final : forall taken f,
  Forall (eq (Some (snd (exec c_dispatch_prog taken f)))) (fst (exec c_dispatch_prog taken f)).
Proof. apply stores_are_final. vm_compute. reflexivity. Qed.

Theorem C18_c_cache_value_is_cpu_only : forall taken f1 f2,
  exec c_dispatch_prog taken f1 = exec c_dispatch_prog taken f2.
Proof. apply result_is_cpu_only. vm_compute. reflexivity. Qed.

(* non-vacuity: the program does store, exactly once, and a CPU answering yes to everything yields all seven features *)
Example C18_c_cache_nonvacuous :
  exec c_dispatch_prog (repeat true 16) 12345 = ([Some 127], 127) /\ stores_final c_dispatch_prog = true.
Proof. vm_compute. split; reflexivity. Qed.

Print Assumptions C18_globals_c_is_detection_cache.
Print Assumptions C18_c_cache_stores_are_final.
Print Assumptions C18_c_cache_value_is_cpu_only.
Print Assumptions C18_globals_rs_are_detection_caches.
Print Assumptions C18_interleaving_projects.
Print Assumptions C18_detection_idempotent.
