/*
 * C-side harness for the BLAKE3 C library and SIMD kernels in /repo/c
 * (properties C05 kernel level, C06 C library, C07 memory/ABI safety,
 * C08 C join seam, C18 threads).
 *
 * Reads one case per line on stdin (`<id> <kind> <args...>`), prints one result
 * line per case (`<id> <tokens...>`), flushed per case.  Same byte-spec grammar
 * and PRNG as harness/rs/src/bytespec.rs (paint/prng/zero/ff/bit/hex).
 * Built and run by tools/charness.py.
 *
 * Case kinds
 *   CH <mode> <mask> <op>...      C hasher history machine (instance 0 exists at start)
 *        mode  hash | keyed=<32 bytes> | derive=<ctx> (NUL-terminated copy, init_derive_key)
 *              | deriveraw=<ctx> (init_derive_key_raw)
 *        mask  portable|sse2|sse41|avx2|avx512 (g_cpu_features forced to the cumulative set) | detect
 *              (g_cpu_features reset to UNDEFINED so the library detects); SKIP if the host lacks the level
 *        ops   n | u:<i>:<bytes> | u0:<i> (update(NULL,0)) | ut:<i>:<bytes>:<script> (update_tbb; tbbseam
 *              build only, otherwise the whole case prints SKIP) | f:<i>:<n> -> x<hex> | fs:<i>:<seek>:<n>
 *              -> x<hex> | f0:<i> (finalize and finalize_seek with NULL,0) -> ok | r:<i> | cl:<i> (memcpy
 *              clone, appended) | cmp:<i>:<j> -> same|diff (raw struct bytes)
 *   kcip <impl> <flavour> <cv32> <block64> <block_len> <counter> <flags>        -> <hex 32>
 *   kxof <impl> <flavour> <cv32> <block64> <block_len> <counter> <flags>        -> <hex 64>
 *   khm  <impl> <flavour> <num_inputs> <blocks> <key32> <counter> <incr> <flags> <flags_start> <flags_end>
 *        <align_off> <seed>                                                    -> x<hex 32*num_inputs>
 *   kxm  <impl> <flavour> <cv32> <block64> <block_len> <counter> <flags> <nblocks> -> x<hex 64*nblocks>
 *        impl portable|sse2|sse41|avx2|avx512, flavour c|asm|winasm; SKIP when the symbol does not exist in
 *        this build (portable exists as flavour c only).  kxm calls blake3_xof_many_avx512 directly for
 *        avx512; for the other levels it calls the dispatcher blake3_xof_many under the forced mask
 *        (flavour must be the build's native one; winasm: SKIP).
 *   THR <nthreads> <case>|<case>|...   thread t runs case t mod ncases, all released from one barrier with
 *        g_cpu_features == UNDEFINED; prints the sub-results separated by a `|` token.  CH sub-cases must
 *        use `detect` (a forced mask would race: SKIP), kxm fallbacks likewise SKIP.
 *   DET                             -> <library get_cpu_features()> <compiler-builtin view> <blake3_simd_degree()>
 *   selfchk <name>                  calls a deliberately broken kernel (trampoline.S) to prove the
 *                                   instrumentation reports it
 * Extra result tokens: SKIP, FAULT (SIGSEGV/SIGBUS/SIGILL/SIGFPE caught in the case), ABORT (assert),
 * oob (bytes outside a buffer were modified), abi:<reg|df|rsp|mxcsr|stack|xmmN> (register/ABI check of the
 * trampoline, used for every kernel call).
 *
 * Build-time macros (set by tools/charness.py):
 *   NATIVE_ASM | NATIVE_C   what blake3_*_{sse2,sse41,avx2,avx512} are in this build
 *   HAVE_WINASM             win_blake3_* (Windows-GNU assembly, ms_abi) is linked in
 *   HAVE_TBBSEAM            blake3.c was compiled with BLAKE3_USE_TBB, tbbseam.c linked in
 *   HF_SSE2 ...             values of enum cpu_feature in blake3_dispatch.c
 *
 * Run-time environment:
 *   C_GUARD=1               every buffer flush against a PROT_NONE page, inputs read-only
 *   C_GUARD_SIDE=hi|lo      which end of the buffer touches the guard page (default hi)
 *   C_HM_LAYOUT=separate|contig   khm inputs each in their own guarded buffer (default), or adjacent in ONE
 *                           guarded buffer as blake3.c passes them (chunks of one input / parent blocks)
 *   C_VERBOSE=1             on FAULT print the faulting address/pc and the buffers of the case to stderr
 *   C_ARGJUNK=0|1|2         junk in the unused upper bits of 8-bit/bool kernel arguments
 *                           (1: bits 32..63, 2: bits 8..63; bool only ever 32..63)
 */
#define _GNU_SOURCE
#include <errno.h>
#include <pthread.h>
#include <setjmp.h>
#include <signal.h>
#include <stdarg.h>
#include <stdatomic.h>
#include <stdbool.h>
#include <stddef.h>
#include <stdint.h>
#include <stdio.h>
#include <stdlib.h>
#include <string.h>
#include <sys/mman.h>
#include <time.h>
#include <ucontext.h>
#include <unistd.h>

#include "blake3.h"
#include "blake3_impl.h"

#if !defined(NATIVE_ASM) && !defined(NATIVE_C)
#error "define NATIVE_ASM or NATIVE_C"
#endif

#ifndef HF_SSE2
#define HF_SSE2 (1 << 0)
#define HF_SSSE3 (1 << 1)
#define HF_SSE41 (1 << 2)
#define HF_AVX (1 << 3)
#define HF_AVX2 (1 << 4)
#define HF_AVX512F (1 << 5)
#define HF_AVX512VL (1 << 6)
#define HF_UNDEFINED (1 << 30)
#endif

/* exposed by -DBLAKE3_TESTING (blake3_dispatch.c) */
extern _Atomic int g_cpu_features;
extern int get_cpu_features(void); /* enum cpu_feature, int-compatible */

#if defined(__SANITIZE_ADDRESS__)
#define HAVE_ASAN 1
#elif defined(__has_feature)
#if __has_feature(address_sanitizer)
#define HAVE_ASAN 1
#endif
#endif
#ifdef HAVE_ASAN
void __asan_poison_memory_region(void const volatile *addr, size_t size);
void __asan_unpoison_memory_region(void const volatile *addr, size_t size);
#define POISON(p, n) __asan_poison_memory_region((p), (n))
#define UNPOISON(p, n) __asan_unpoison_memory_region((p), (n))
#else
#define POISON(p, n) ((void)0)
#define UNPOISON(p, n) ((void)0)
#endif

static void die(const char *fmt, ...) {
  va_list ap;
  va_start(ap, fmt);
  fprintf(stderr, "driver: ");
  vfprintf(stderr, fmt, ap);
  fprintf(stderr, "\n");
  va_end(ap);
  fflush(NULL);
  _exit(3);
}

static void *xmalloc(size_t n) {
  void *p = malloc(n ? n : 1);
  if (!p) die("out of memory (%zu)", n);
  return p;
}

/* ------------------------------------------------------------------ */
/* string builder for result lines                                     */
/* ------------------------------------------------------------------ */
typedef struct {
  char *s;
  size_t n, cap;
} sb;

static void sb_need(sb *b, size_t extra) {
  if (b->n + extra + 1 > b->cap) {
    size_t c = b->cap ? b->cap * 2 : 256;
    while (c < b->n + extra + 1) c *= 2;
    b->s = realloc(b->s, c);
    if (!b->s) die("out of memory");
    b->cap = c;
  }
}
static void sb_raw(sb *b, const char *s, size_t n) {
  sb_need(b, n);
  memcpy(b->s + b->n, s, n);
  b->n += n;
  b->s[b->n] = 0;
}
static void sb_sep(sb *b) {
  if (b->n) sb_raw(b, " ", 1);
}
static void sb_tok(sb *b, const char *fmt, ...) {
  char tmp[256];
  va_list ap;
  va_start(ap, fmt);
  int k = vsnprintf(tmp, sizeof tmp, fmt, ap);
  va_end(ap);
  sb_sep(b);
  sb_raw(b, tmp, (size_t)(k < (int)sizeof tmp ? k : (int)sizeof tmp - 1));
}
static void sb_hex(sb *b, const char *prefix, const uint8_t *p, size_t n) {
  static const char T[] = "0123456789abcdef";
  sb_sep(b);
  sb_raw(b, prefix, strlen(prefix));
  sb_need(b, 2 * n);
  char *d = b->s + b->n;
  for (size_t i = 0; i < n; i++) {
    d[2 * i] = T[p[i] >> 4];
    d[2 * i + 1] = T[p[i] & 15];
  }
  b->n += 2 * n;
  b->s[b->n] = 0;
}

/* ------------------------------------------------------------------ */
/* byte specs (identical to harness/rs/src/bytespec.rs)                 */
/* ------------------------------------------------------------------ */
typedef struct {
  uint8_t *p;
  size_t n;
} bytes;

static int hexval(int c) {
  if (c >= '0' && c <= '9') return c - '0';
  if (c >= 'a' && c <= 'f') return c - 'a' + 10;
  if (c >= 'A' && c <= 'F') return c - 'A' + 10;
  return -1;
}

static void prng_fill(uint64_t seed, uint8_t *p, size_t len) {
  uint64_t x = seed * 0x9E3779B97F4A7C15ULL + 1;
  if (x == 0) x = 1;
  for (size_t i = 0; i < len; i++) {
    x ^= x >> 12;
    x ^= x << 25;
    x ^= x >> 27;
    p[i] = (uint8_t)((x * 0x2545F4914F6CDD1DULL) >> 56);
  }
}

static uint64_t parse_u64(const char *s) {
  char *end;
  errno = 0;
  unsigned long long v = strtoull(s, &end, 0);
  if (errno || end == s || *end) die("bad number '%s'", s);
  return (uint64_t)v;
}

/* spec may be followed by ':' or NUL; `len` limits what is looked at */
static bytes parse_bytes_n(const char *spec, size_t len) {
  char *tmp = xmalloc(len + 1);
  memcpy(tmp, spec, len);
  tmp[len] = 0;
  bytes r = {NULL, 0};
  char *s1 = strchr(tmp, '/');
  if (!s1) die("bad byte spec '%.40s'", tmp);
  *s1++ = 0;
  if (!strcmp(tmp, "hex")) {
    size_t hl = strlen(s1);
    if (hl % 2) die("odd hex");
    r.n = hl / 2;
    r.p = xmalloc(r.n);
    for (size_t i = 0; i < r.n; i++) {
      int a = hexval(s1[2 * i]), b = hexval(s1[2 * i + 1]);
      if (a < 0 || b < 0) die("bad hex digit");
      r.p[i] = (uint8_t)(a << 4 | b);
    }
    free(tmp);
    return r;
  }
  char *s2 = strchr(s1, '/');
  if (!s2) die("bad byte spec '%.40s'", spec);
  *s2++ = 0;
  uint64_t a = parse_u64(s1);
  r.n = (size_t)parse_u64(s2);
  r.p = xmalloc(r.n);
  if (!strcmp(tmp, "paint")) {
    for (size_t i = 0; i < r.n; i++) r.p[i] = (uint8_t)(((uint64_t)i + a) % 251);
  } else if (!strcmp(tmp, "prng")) {
    prng_fill(a, r.p, r.n);
  } else if (!strcmp(tmp, "zero")) {
    memset(r.p, 0, r.n);
  } else if (!strcmp(tmp, "ff")) {
    memset(r.p, 0xff, r.n);
  } else if (!strcmp(tmp, "bit")) {
    memset(r.p, 0, r.n);
    if (a / 8 < r.n) r.p[a / 8] = (uint8_t)(1u << (a % 8));
  } else {
    die("bad byte spec kind '%s'", tmp);
  }
  free(tmp);
  return r;
}
static bytes parse_bytes(const char *spec) { return parse_bytes_n(spec, strlen(spec)); }

/* ------------------------------------------------------------------ */
/* per-thread case context: guarded buffers, fault recovery             */
/* ------------------------------------------------------------------ */
static size_t PS;
static int g_guard, g_side_hi = 1, g_argjunk, g_hm_contig;
static int g_host_features;

typedef struct gbuf {
  uint8_t *map;
  size_t maplen;
  uint8_t *acc; /* accessible region (canary outside [p,p+n)) */
  size_t acclen;
  uint8_t *p;
  size_t n;
  int ro;
  int live;
} gbuf;

typedef struct {
  gbuf **bufs;
  size_t nb, capb;
  int oob;
  sigjmp_buf jb;
  volatile int armed;
} cctx;

static __thread cctx *tctx;

static inline uint8_t canary_byte(size_t i) { return (uint8_t)(0x5C + 113 * i); }
static inline uint8_t prefill_byte(size_t i) { return (uint8_t)(0xE7 ^ (5 * i)); }

/* buffer of n bytes whose address is == off (mod align); align a power of two <= PS */
static gbuf *galloc(size_t n, size_t align, size_t off) {
  cctx *c = tctx;
  if (align == 0) align = 1;
  off %= align;
  size_t need = n + align;
  size_t np = (need + PS - 1) / PS;
  if (np == 0) np = 1;
  gbuf *b = xmalloc(sizeof *b);
  b->maplen = (np + 2) * PS;
  b->map = mmap(NULL, b->maplen, PROT_READ | PROT_WRITE, MAP_PRIVATE | MAP_ANONYMOUS, -1, 0);
  if (b->map == MAP_FAILED) die("mmap: %s", strerror(errno));
  uint8_t *lo_edge = b->map + PS, *hi_edge = b->map + PS + np * PS;
  if (g_guard) {
    b->acc = lo_edge;
    b->acclen = np * PS;
    if (mprotect(b->map, PS, PROT_NONE) || mprotect(hi_edge, PS, PROT_NONE)) die("mprotect: %s", strerror(errno));
  } else {
    b->acc = b->map;
    b->acclen = b->maplen;
  }
  uintptr_t a;
  if (g_side_hi) {
    a = (uintptr_t)hi_edge - n;
    a -= (a % align + align - off) % align;
  } else {
    a = (uintptr_t)lo_edge;
    a += (off + align - a % align) % align;
  }
  b->p = (uint8_t *)a;
  b->n = n;
  b->ro = 0;
  b->live = 1;
  if (b->p < b->acc || b->p + n > b->acc + b->acclen) die("galloc layout");
  for (size_t i = 0; i < b->acclen; i++) b->acc[i] = canary_byte(i);
  if (g_guard) {
    size_t before = (size_t)(b->p - b->acc), after = (size_t)(b->acc + b->acclen - (b->p + n));
    POISON(b->acc, before);
    POISON(b->p + n, after);
  }
  if (c->nb == c->capb) {
    c->capb = c->capb ? 2 * c->capb : 32;
    c->bufs = realloc(c->bufs, c->capb * sizeof *c->bufs);
    if (!c->bufs) die("out of memory");
  }
  c->bufs[c->nb++] = b;
  return b;
}

static void gprot(gbuf *b, int ro) {
  if (!g_guard || b->ro == ro) return;
  if (mprotect(b->acc, b->acclen, ro ? PROT_READ : PROT_READ | PROT_WRITE)) die("mprotect: %s", strerror(errno));
  b->ro = ro;
}

/* input buffer: filled with `src`, read-only while in use */
static gbuf *galloc_in(const void *src, size_t n, size_t align, size_t off) {
  gbuf *b = galloc(n, align, off);
  if (n) memcpy(b->p, src, n);
  gprot(b, 1);
  return b;
}

/* output buffer: pre-filled with a pattern */
static gbuf *galloc_out(size_t n, size_t align, size_t off) {
  gbuf *b = galloc(n, align, off);
  for (size_t i = 0; i < n; i++) b->p[i] = prefill_byte(i);
  return b;
}

/* canary intact? (everything accessible outside [p,p+n)) */
static int gcheck(gbuf *b) {
  int ok = 1;
  size_t s = (size_t)(b->p - b->acc), e = s + b->n;
  UNPOISON(b->acc, b->acclen);
  for (size_t i = 0; i < s; i++)
    if (b->acc[i] != canary_byte(i)) ok = 0;
  for (size_t i = e; i < b->acclen; i++)
    if (b->acc[i] != canary_byte(i)) ok = 0;
  if (g_guard) {
    POISON(b->acc, s);
    POISON(b->p + b->n, b->acclen - e);
  }
  if (!ok) tctx->oob = 1;
  return ok;
}

static void gfree(gbuf *b) {
  if (!b->live) return;
  gprot(b, 0);
  gcheck(b);
  UNPOISON(b->acc, b->acclen);
  munmap(b->map, b->maplen);
  b->live = 0;
}

static void gfree_all(cctx *c, int check) {
  for (size_t i = 0; i < c->nb; i++) {
    gbuf *b = c->bufs[i];
    if (b->live) {
      if (check) {
        gfree(b);
      } else { /* after a fault: memory state unknown, just unmap */
        UNPOISON(b->map, b->maplen);
        munmap(b->map, b->maplen);
      }
    }
    free(b);
  }
  c->nb = 0;
}

static __thread void *t_fault_addr;
static __thread void *t_fault_pc;
static int g_verbose;

static void on_signal(int sig, siginfo_t *si, void *uc_) {
  cctx *c = tctx;
  t_fault_addr = si ? si->si_addr : NULL;
  t_fault_pc = uc_ ? (void *)((ucontext_t *)uc_)->uc_mcontext.gregs[REG_RIP] : NULL;
  if (c && c->armed) siglongjmp(c->jb, sig);
  static const char msg[] = "driver: fatal signal outside a case\n";
  ssize_t r = write(2, msg, sizeof msg - 1);
  (void)r;
  _exit(128 + sig);
}

static void install_handlers(void) {
  static uint8_t altstack[1 << 16];
  stack_t ss = {.ss_sp = altstack, .ss_size = sizeof altstack, .ss_flags = 0};
  sigaltstack(&ss, NULL);
  struct sigaction sa;
  memset(&sa, 0, sizeof sa);
  sa.sa_sigaction = on_signal;
  sa.sa_flags = SA_ONSTACK | SA_NODEFER | SA_SIGINFO;
  sigemptyset(&sa.sa_mask);
  int sigs[] = {SIGSEGV, SIGBUS, SIGILL, SIGFPE, SIGABRT};
  for (size_t i = 0; i < sizeof sigs / sizeof *sigs; i++) sigaction(sigs[i], &sa, NULL);
}

/* ------------------------------------------------------------------ */
/* CPU features                                                         */
/* ------------------------------------------------------------------ */
static int host_features(void) {
  int f = 0;
  __builtin_cpu_init();
  if (__builtin_cpu_supports("sse2")) f |= HF_SSE2;
  if (__builtin_cpu_supports("ssse3")) f |= HF_SSSE3;
  if (__builtin_cpu_supports("sse4.1")) f |= HF_SSE41;
  if (__builtin_cpu_supports("avx")) f |= HF_AVX;
  if (__builtin_cpu_supports("avx2")) f |= HF_AVX2;
  if (__builtin_cpu_supports("avx512f")) f |= HF_AVX512F;
  if (__builtin_cpu_supports("avx512vl")) f |= HF_AVX512VL;
  return f;
}

/* cumulative feature set of a level; -1 for detect; -2 unknown name */
static int level_mask(const char *name) {
  if (!strcmp(name, "detect")) return -1;
  if (!strcmp(name, "portable")) return 0;
  int m = HF_SSE2;
  if (!strcmp(name, "sse2")) return m;
  m |= HF_SSSE3 | HF_SSE41;
  if (!strcmp(name, "sse41")) return m;
  m |= HF_AVX | HF_AVX2;
  if (!strcmp(name, "avx2")) return m;
  m |= HF_AVX512F | HF_AVX512VL;
  if (!strcmp(name, "avx512")) return m;
  return -2;
}

/* ------------------------------------------------------------------ */
/* trampoline                                                           */
/* ------------------------------------------------------------------ */
struct tramp_ctx {
  uint64_t args[10];
  uint64_t gpr_in[8]; /* rbx rbp r12 r13 r14 r15 rsi rdi */
  uint64_t gpr_out[8];
  uint64_t rsp_out;
  uint64_t rflags_out;
  uint32_t mxcsr_in, mxcsr_out;
  uint64_t canary_out[2];
  uint64_t rsp_in;
  uint8_t xmm_in[160];
  uint8_t xmm_out[160];
};
_Static_assert(offsetof(struct tramp_ctx, gpr_in) == 80, "ctx layout");
_Static_assert(offsetof(struct tramp_ctx, gpr_out) == 144, "ctx layout");
_Static_assert(offsetof(struct tramp_ctx, rsp_out) == 208, "ctx layout");
_Static_assert(offsetof(struct tramp_ctx, rflags_out) == 216, "ctx layout");
_Static_assert(offsetof(struct tramp_ctx, mxcsr_in) == 224, "ctx layout");
_Static_assert(offsetof(struct tramp_ctx, mxcsr_out) == 228, "ctx layout");
_Static_assert(offsetof(struct tramp_ctx, canary_out) == 232, "ctx layout");
_Static_assert(offsetof(struct tramp_ctx, xmm_in) == 256, "ctx layout");
_Static_assert(offsetof(struct tramp_ctx, xmm_out) == 416, "ctx layout");
#define TRAMP_CANARY 0x5ca1ab1e0ddba11ULL

void tramp_call_sysv(void *fn, struct tramp_ctx *ctx);
void tramp_call_ms(void *fn, struct tramp_ctx *ctx);

static const char *const GPR_NAMES[8] = {"rbx", "rbp", "r12", "r13", "r14", "r15", "rsi", "rdi"};

/* Stack alignment sweep: the System V ABI only promises rsp % 16 == 0 at a call site, so a kernel may be
 * entered with rsp % 64 in {8, 24, 40, 56}; kernels that realign their frame (and rsp, -64) have a different
 * amount of slack in each case.  Every kernel function cycles through the four call-site alignments over its
 * own successive calls (alloca shifts the trampoline's frame by 0/16/32/48 bytes). */
static __thread struct { void *fn; unsigned n; } g_align_tab[64];
static unsigned next_alignment(void *fn) {
  for (int i = 0; i < 64; i++) {
    if (g_align_tab[i].fn == fn) return g_align_tab[i].n++ & 3;
    if (g_align_tab[i].fn == NULL) {
      g_align_tab[i].fn = fn;
      g_align_tab[i].n = 1;
      return 0;
    }
  }
  return 0;
}
static __attribute__((noinline)) void tramp_at(void *fn, int ms, struct tramp_ctx *c, unsigned k) {
  volatile char *pad = __builtin_alloca(16 * (size_t)k + 16);
  pad[0] = 0;
  if (ms)
    tramp_call_ms(fn, c);
  else
    tramp_call_sysv(fn, c);
  pad[1] = 0;
}

/* widths[i] = 8 for uint8_t, 1 for bool, 64 otherwise */
static void kcall(void *fn, int ms, const uint64_t args[10], const uint8_t widths[10], sb *out) {
  struct tramp_ctx c;
  memset(&c, 0, sizeof c);
  for (int i = 0; i < 10; i++) {
    uint64_t v = args[i];
    uint64_t junk = 0xDEADBEEFCAFEF00DULL * (uint64_t)(2 * i + 3);
    if (g_argjunk && widths[i] == 8) {
      uint64_t keep = g_argjunk >= 2 ? 0xffULL : 0xffffffffULL;
      v = (v & keep) | (junk & ~keep);
    } else if (g_argjunk && widths[i] == 1) {
      v = (v & 0xffffffffULL) | (junk & ~0xffffffffULL);
    }
    c.args[i] = v;
  }
  for (int i = 0; i < 8; i++) c.gpr_in[i] = 0xB1B2B3B4C5C6C7C0ULL + (uint64_t)i * 0x0101010101010101ULL;
  for (int i = 0; i < 160; i++) c.xmm_in[i] = (uint8_t)(0x60 + 3 * i);
  tramp_at(fn, ms, &c, next_alignment(fn));
  int ngpr = ms ? 8 : 6;
  for (int i = 0; i < ngpr; i++)
    if (c.gpr_out[i] != c.gpr_in[i]) sb_tok(out, "abi:%s", GPR_NAMES[i]);
  if (c.rsp_out != c.rsp_in) sb_tok(out, "abi:rsp");
  if (c.rflags_out & 0x400) sb_tok(out, "abi:df");
  if ((c.mxcsr_in & 0xffc0) != (c.mxcsr_out & 0xffc0)) sb_tok(out, "abi:mxcsr");
  if (c.canary_out[0] != TRAMP_CANARY || c.canary_out[1] != TRAMP_CANARY) sb_tok(out, "abi:stack");
  if (ms) {
    for (int i = 0; i < 10; i++)
      if (memcmp(c.xmm_in + 16 * i, c.xmm_out + 16 * i, 16)) sb_tok(out, "abi:xmm%d", 6 + i);
  }
}

/* ------------------------------------------------------------------ */
/* kernel tables                                                        */
/* ------------------------------------------------------------------ */
#ifdef HAVE_WINASM
extern void win_blake3_compress_in_place_sse2(void);
extern void win_blake3_compress_xof_sse2(void);
extern void win_blake3_hash_many_sse2(void);
extern void win_blake3_compress_in_place_sse41(void);
extern void win_blake3_compress_xof_sse41(void);
extern void win_blake3_hash_many_sse41(void);
extern void win_blake3_hash_many_avx2(void);
extern void win_blake3_compress_in_place_avx512(void);
extern void win_blake3_compress_xof_avx512(void);
extern void win_blake3_hash_many_avx512(void);
#endif

typedef struct {
  const char *impl, *flavour;
  int ms;   /* ms_abi */
  int need; /* host features needed */
  void *cip, *xof, *hm, *xm;
} kern;

#define NEED_SSE2 HF_SSE2
#define NEED_SSE41 (HF_SSE2 | HF_SSSE3 | HF_SSE41)
#define NEED_AVX2 (NEED_SSE41 | HF_AVX | HF_AVX2)
#define NEED_AVX512 (NEED_AVX2 | HF_AVX512F | HF_AVX512VL)
#ifdef NATIVE_ASM
#define NATIVE "asm"
#else
#define NATIVE "c"
#endif

static const kern KERNELS[] = {
    {"portable", "c", 0, 0, (void *)blake3_compress_in_place_portable, (void *)blake3_compress_xof_portable,
     (void *)blake3_hash_many_portable, NULL},
    {"sse2", NATIVE, 0, NEED_SSE2, (void *)blake3_compress_in_place_sse2, (void *)blake3_compress_xof_sse2,
     (void *)blake3_hash_many_sse2, NULL},
    {"sse41", NATIVE, 0, NEED_SSE41, (void *)blake3_compress_in_place_sse41, (void *)blake3_compress_xof_sse41,
     (void *)blake3_hash_many_sse41, NULL},
    {"avx2", NATIVE, 0, NEED_AVX2, NULL, NULL, (void *)blake3_hash_many_avx2, NULL},
    {"avx512", NATIVE, 0, NEED_AVX512, (void *)blake3_compress_in_place_avx512, (void *)blake3_compress_xof_avx512,
     (void *)blake3_hash_many_avx512, (void *)blake3_xof_many_avx512},
#ifdef HAVE_WINASM
    {"sse2", "winasm", 1, NEED_SSE2, (void *)win_blake3_compress_in_place_sse2, (void *)win_blake3_compress_xof_sse2,
     (void *)win_blake3_hash_many_sse2, NULL},
    {"sse41", "winasm", 1, NEED_SSE41, (void *)win_blake3_compress_in_place_sse41,
     (void *)win_blake3_compress_xof_sse41, (void *)win_blake3_hash_many_sse41, NULL},
    {"avx2", "winasm", 1, NEED_AVX2, NULL, NULL, (void *)win_blake3_hash_many_avx2, NULL},
    {"avx512", "winasm", 1, NEED_AVX512, (void *)win_blake3_compress_in_place_avx512,
     (void *)win_blake3_compress_xof_avx512, (void *)win_blake3_hash_many_avx512, NULL},
#endif
};

static const kern *find_kernel(const char *impl, const char *flavour) {
  for (size_t i = 0; i < sizeof KERNELS / sizeof *KERNELS; i++)
    if (!strcmp(KERNELS[i].impl, impl) && !strcmp(KERNELS[i].flavour, flavour)) return &KERNELS[i];
  return NULL;
}

static int known_impl(const char *s) { return level_mask(s) >= 0; }
static int known_flavour(const char *s) { return !strcmp(s, "c") || !strcmp(s, "asm") || !strcmp(s, "winasm"); }

/* ------------------------------------------------------------------ */
/* kernel cases                                                         */
/* ------------------------------------------------------------------ */
static bytes need_bytes(const char *spec, size_t n, const char *what) {
  bytes b = parse_bytes(spec);
  if (b.n != n) die("%s must be %zu bytes, got %zu", what, n, b.n);
  return b;
}

/* kcip / kxof <impl> <flavour> <cv> <block> <block_len> <counter> <flags> */
static void case_compress(int xof, char **t, int nt, sb *out) {
  if (nt != 8) die("kcip/kxof: 7 arguments expected");
  if (!known_impl(t[1]) || !known_flavour(t[2])) die("bad impl/flavour %s/%s", t[1], t[2]);
  const kern *k = find_kernel(t[1], t[2]);
  void *fn = k ? (xof ? k->xof : k->cip) : NULL;
  if (!fn || (k->need & ~g_host_features)) {
    sb_tok(out, "SKIP");
    return;
  }
  bytes cv = need_bytes(t[3], 32, "cv"), blk = need_bytes(t[4], 64, "block");
  uint64_t block_len = parse_u64(t[5]), counter = parse_u64(t[6]), flags = parse_u64(t[7]);
  gbuf *gblk = galloc_in(blk.p, 64, 1, 0);
  static const uint8_t W[10] = {64, 64, 8, 64, 8, 64, 64, 64, 64, 64};
  if (xof) {
    gbuf *gcv = galloc_in(cv.p, 32, 4, 0);
    gbuf *gout = galloc_out(64, 1, 0);
    uint64_t a[10] = {(uintptr_t)gcv->p, (uintptr_t)gblk->p, block_len, counter, flags, (uintptr_t)gout->p};
    kcall(fn, k->ms, a, W, out);
    sb_hex(out, "", gout->p, 64);
  } else {
    gbuf *gcv = galloc(32, 4, 0);
    memcpy(gcv->p, cv.p, 32);
    uint64_t a[10] = {(uintptr_t)gcv->p, (uintptr_t)gblk->p, block_len, counter, flags};
    kcall(fn, k->ms, a, W, out);
    sb_hex(out, "", gcv->p, 32);
  }
  free(cv.p);
  free(blk.p);
}

/* khm <impl> <flavour> <num_inputs> <blocks> <key> <counter> <incr> <flags> <flags_start> <flags_end> <align_off> <seed> */
static void case_hash_many(char **t, int nt, sb *out) {
  if (nt != 13) die("khm: 12 arguments expected");
  if (!known_impl(t[1]) || !known_flavour(t[2])) die("bad impl/flavour %s/%s", t[1], t[2]);
  const kern *k = find_kernel(t[1], t[2]);
  if (!k || !k->hm || (k->need & ~g_host_features)) {
    sb_tok(out, "SKIP");
    return;
  }
  size_t num_inputs = (size_t)parse_u64(t[3]), blocks = (size_t)parse_u64(t[4]);
  bytes key = need_bytes(t[5], 32, "key");
  uint64_t counter = parse_u64(t[6]), incr = parse_u64(t[7]), flags = parse_u64(t[8]), fs = parse_u64(t[9]),
           fe = parse_u64(t[10]);
  size_t align_off = (size_t)parse_u64(t[11]);
  uint64_t seed = parse_u64(t[12]);
  if (num_inputs > 4096 || blocks > (1u << 16) || align_off > 63) die("khm: argument out of range");
  const uint8_t **ptrs = xmalloc(sizeof(*ptrs) * (num_inputs + 1));
  uint8_t *tmp = xmalloc(blocks * 64);
  if (g_hm_contig) {
    /* the library's calling pattern: all inputs adjacent in one buffer (chunks of one input, parent blocks) */
    gbuf *all = galloc(num_inputs * blocks * 64, 64, align_off);
    for (size_t i = 0; i < num_inputs; i++) {
      prng_fill(seed + i, all->p + i * blocks * 64, blocks * 64);
      ptrs[i] = all->p + i * blocks * 64;
    }
    gprot(all, 1);
  } else {
    for (size_t i = 0; i < num_inputs; i++) {
      prng_fill(seed + i, tmp, blocks * 64);
      ptrs[i] = galloc_in(tmp, blocks * 64, 64, align_off)->p;
    }
  }
  free(tmp);
  gbuf *gptrs = galloc_in(ptrs, num_inputs * sizeof(*ptrs), 8, 0);
  gbuf *gkey = galloc_in(key.p, 32, 4, 0);
  gbuf *gout = galloc_out(32 * num_inputs, 1, 0);
  static const uint8_t W[10] = {64, 64, 64, 64, 64, 1, 8, 8, 8, 64};
  uint64_t a[10] = {(uintptr_t)gptrs->p, num_inputs, blocks, (uintptr_t)gkey->p, counter,
                    incr ? 1 : 0,        flags,      fs,     fe,                 (uintptr_t)gout->p};
  kcall(k->hm, k->ms, a, W, out);
  sb_hex(out, "x", gout->p, 32 * num_inputs);
  free(ptrs);
  free(key.p);
}

/* kxm <impl> <flavour> <cv> <block> <block_len> <counter> <flags> <nblocks> */
static void case_xof_many(char **t, int nt, sb *out, int in_thr) {
  if (nt != 9) die("kxm: 8 arguments expected");
  if (!known_impl(t[1]) || !known_flavour(t[2])) die("bad impl/flavour %s/%s", t[1], t[2]);
  const kern *k = find_kernel(t[1], t[2]);
  if (!k || k->ms || (k->need & ~g_host_features)) {
    sb_tok(out, "SKIP");
    return;
  }
  bytes cv = need_bytes(t[3], 32, "cv"), blk = need_bytes(t[4], 64, "block");
  uint64_t block_len = parse_u64(t[5]), counter = parse_u64(t[6]), flags = parse_u64(t[7]);
  size_t nblocks = (size_t)parse_u64(t[8]);
  if (nblocks > (1u << 20)) die("kxm: nblocks out of range");
  gbuf *gcv = galloc_in(cv.p, 32, 4, 0);
  gbuf *gblk = galloc_in(blk.p, 64, 1, 0);
  gbuf *gout = galloc_out(64 * nblocks, 1, 0);
  static const uint8_t W[10] = {64, 64, 8, 64, 8, 64, 64, 64, 64, 64};
  uint64_t a[10] = {(uintptr_t)gcv->p, (uintptr_t)gblk->p, block_len, counter, flags, (uintptr_t)gout->p, nblocks};
  if (k->xm) {
    /* the assembly always writes at least one block: 0 is outside its contract */
    if (nblocks > 0) kcall(k->xm, 0, a, W, out);
  } else {
    /* dispatch fallback under the forced mask (a loop over blake3_compress_xof) */
    if (in_thr) {
      sb_tok(out, "SKIP");
      free(cv.p);
      free(blk.p);
      return;
    }
    atomic_store(&g_cpu_features, level_mask(t[1]));
    kcall((void *)blake3_xof_many, 0, a, W, out);
  }
  sb_hex(out, "x", gout->p, 64 * nblocks);
  free(cv.p);
  free(blk.p);
}

/* ------------------------------------------------------------------ */
/* C08 seam                                                             */
/* ------------------------------------------------------------------ */
#ifdef HAVE_TBBSEAM
void tbbseam_set_script(const char *script);
unsigned long tbbseam_calls(void);
#endif

/* ------------------------------------------------------------------ */
/* CH: C hasher history machine                                         */
/* ------------------------------------------------------------------ */
typedef struct {
  enum { M_HASH, M_KEYED, M_DERIVE, M_DERIVERAW } kind;
  bytes arg;
} chmode;

static gbuf *new_hasher(const chmode *m) {
  gbuf *h = galloc(sizeof(blake3_hasher), 8, 0);
  memset(h->p, 0xCD, sizeof(blake3_hasher));
  blake3_hasher *self = (blake3_hasher *)h->p;
  switch (m->kind) {
  case M_HASH:
    blake3_hasher_init(self);
    break;
  case M_KEYED: {
    gbuf *k = galloc_in(m->arg.p, 32, 1, 0);
    blake3_hasher_init_keyed(self, k->p);
    gfree(k);
    break;
  }
  case M_DERIVE: {
    char *z = xmalloc(m->arg.n + 1);
    memcpy(z, m->arg.p, m->arg.n);
    z[m->arg.n] = 0;
    gbuf *k = galloc_in(z, m->arg.n + 1, 1, 0);
    free(z);
    blake3_hasher_init_derive_key(self, (const char *)k->p);
    gfree(k);
    break;
  }
  case M_DERIVERAW: {
    gbuf *k = galloc_in(m->arg.p, m->arg.n, 1, 0);
    blake3_hasher_init_derive_key_raw(self, k->p, m->arg.n);
    gfree(k);
    break;
  }
  }
  return h;
}

/* split "a:b:c" in place; byte specs contain no ':' */
static int split_colon(char *s, char **f, int maxf) {
  int n = 0;
  f[n++] = s;
  for (char *p = s; *p; p++)
    if (*p == ':') {
      *p = 0;
      if (n == maxf) die("too many fields in op");
      f[n++] = p + 1;
    }
  return n;
}

static size_t hidx(const char *s, size_t n) {
  uint64_t v = parse_u64(s);
  if (v >= n) die("instance %s out of range", s);
  return (size_t)v;
}

static void case_ch(char **t, int nt, sb *out, int in_thr) {
  if (nt < 3) die("CH: mode and mask expected");
  chmode m;
  m.arg.p = NULL;
  m.arg.n = 0;
  if (!strcmp(t[1], "hash")) {
    m.kind = M_HASH;
  } else if (!strncmp(t[1], "keyed=", 6)) {
    m.kind = M_KEYED;
    m.arg = need_bytes(t[1] + 6, 32, "key");
  } else if (!strncmp(t[1], "derive=", 7)) {
    m.kind = M_DERIVE;
    m.arg = parse_bytes(t[1] + 7);
    if (memchr(m.arg.p, 0, m.arg.n)) die("derive= context contains NUL (use deriveraw=)");
  } else if (!strncmp(t[1], "deriveraw=", 10)) {
    m.kind = M_DERIVERAW;
    m.arg = parse_bytes(t[1] + 10);
  } else {
    die("bad mode %s", t[1]);
  }
  int mask = level_mask(t[2]);
  if (mask == -2) die("bad mask %s", t[2]);
  int skip = mask >= 0 && (mask & ~g_host_features);
#ifndef HAVE_TBBSEAM
  for (int i = 3; i < nt; i++)
    if (!strncmp(t[i], "ut:", 3)) skip = 1;
#endif
  if (in_thr && mask != -1) skip = 1; /* forcing the mask would race with the other threads */
  if (skip) {
    sb_tok(out, "SKIP");
    free(m.arg.p);
    return;
  }
  if (!in_thr) atomic_store(&g_cpu_features, mask == -1 ? HF_UNDEFINED : mask);

  gbuf **hs = NULL;
  size_t nh = 0, caph = 0;
#define PUSH_H(h)                                                                                                      \
  do {                                                                                                                 \
    if (nh == caph) {                                                                                                  \
      caph = caph ? 2 * caph : 8;                                                                                      \
      hs = realloc(hs, caph * sizeof *hs);                                                                             \
      if (!hs) die("out of memory");                                                                                   \
    }                                                                                                                  \
    hs[nh++] = (h);                                                                                                    \
  } while (0)
#define H(ix) ((blake3_hasher *)hs[hidx((ix), nh)]->p)
  PUSH_H(new_hasher(&m));
  for (int i = 3; i < nt; i++) {
    char *f[6];
    int nf = split_colon(t[i], f, 6);
    const char *op = f[0];
    if (!strcmp(op, "n") && nf == 1) {
      PUSH_H(new_hasher(&m));
    } else if (!strcmp(op, "u") && nf == 3) {
      bytes b = parse_bytes(f[2]);
      gbuf *in = galloc_in(b.p, b.n, 1, 0);
      blake3_hasher_update(H(f[1]), in->p, b.n);
      gfree(in);
      free(b.p);
    } else if (!strcmp(op, "u0") && nf == 2) {
      blake3_hasher_update(H(f[1]), NULL, 0);
    } else if (!strcmp(op, "ut") && nf == 4) {
#ifdef HAVE_TBBSEAM
      bytes b = parse_bytes(f[2]);
      gbuf *in = galloc_in(b.p, b.n, 1, 0);
      tbbseam_set_script(f[3]);
      blake3_hasher_update_tbb(H(f[1]), in->p, b.n);
      tbbseam_set_script(NULL);
      gfree(in);
      free(b.p);
#else
      die("ut without tbbseam");
#endif
    } else if ((!strcmp(op, "f") && nf == 3) || (!strcmp(op, "fs") && nf == 4)) {
      int seek = op[1] == 's';
      uint64_t pos = seek ? parse_u64(f[2]) : 0;
      size_t n = (size_t)parse_u64(f[seek ? 3 : 2]);
      gbuf *h = hs[hidx(f[1], nh)];
      gbuf *o = galloc_out(n, 1, 0);
      gprot(h, 1); /* finalize takes a const hasher */
      if (seek)
        blake3_hasher_finalize_seek((const blake3_hasher *)h->p, pos, o->p, n);
      else
        blake3_hasher_finalize((const blake3_hasher *)h->p, o->p, n);
      gprot(h, 0);
      sb_hex(out, "x", o->p, n);
      gfree(o);
    } else if (!strcmp(op, "f0") && nf == 2) {
      gbuf *h = hs[hidx(f[1], nh)];
      gprot(h, 1);
      blake3_hasher_finalize((const blake3_hasher *)h->p, NULL, 0);
      blake3_hasher_finalize_seek((const blake3_hasher *)h->p, 0, NULL, 0);
      gprot(h, 0);
      sb_tok(out, "ok");
    } else if (!strcmp(op, "r") && nf == 2) {
      blake3_hasher_reset(H(f[1]));
    } else if (!strcmp(op, "cl") && nf == 2) {
      gbuf *src = hs[hidx(f[1], nh)];
      gbuf *h = galloc(sizeof(blake3_hasher), 8, 0);
      memcpy(h->p, src->p, sizeof(blake3_hasher));
      PUSH_H(h);
    } else if (!strcmp(op, "ri") && nf == 2) {
      /* ri:<count>  re-run the case's initialiser <count> times on a scratch hasher, hash "abc", and compare every
       * digest with the first one: an initialiser must be a function of its arguments only (C18: no shared cache) */
      uint64_t cnt = parse_u64(f[1]);
      uint8_t first[32], cur[32];
      int diff = 0;
      for (uint64_t it = 0; it < cnt; it++) {
        blake3_hasher tmp;
        switch (m.kind) {
        case M_HASH: blake3_hasher_init(&tmp); break;
        case M_KEYED: blake3_hasher_init_keyed(&tmp, m.arg.p); break;
        case M_DERIVE:
        case M_DERIVERAW: blake3_hasher_init_derive_key_raw(&tmp, m.arg.p, m.arg.n); break;
        }
        blake3_hasher_update(&tmp, "abc", 3);
        blake3_hasher_finalize(&tmp, it ? cur : first, 32);
        if (it && memcmp(cur, first, 32)) diff = 1;
      }
      sb_tok(out, diff ? "diff" : "same");
    } else if (!strcmp(op, "cmp") && nf == 3) {
      sb_tok(out, memcmp(H(f[1]), H(f[2]), sizeof(blake3_hasher)) ? "diff" : "same");
    } else {
      die("bad CH op '%s' (%d fields)", op, nf);
    }
    for (size_t j = 0; j < nh; j++) gcheck(hs[j]);
  }
  free(hs);
  free(m.arg.p);
#undef PUSH_H
#undef H
}

/* selfchk <name>: call a deliberately broken kernel from trampoline.S (validates the instrumentation) */
#define BADLIST(X) X(none) X(rbx) X(rbp) X(r12) X(r15) X(df) X(rsp) X(mxcsr) X(stack) X(write_past) X(write_before) \
  X(read_past) X(read_before) X(write_input) X(abort) X(ms_none) X(ms_xmm6) X(ms_xmm15) X(ms_rsi) X(ms_rdi) X(ms_stack)
#define X(n) extern void bad_##n(void);
BADLIST(X)
#undef X
static void case_selfchk(char **t, int nt, sb *out) {
  if (nt != 2) die("selfchk <name>");
  void *fn = NULL;
#define X(n) if (!strcmp(t[1], #n)) fn = (void *)bad_##n;
  BADLIST(X)
#undef X
  if (!fn) die("selfchk: unknown %s", t[1]);
  uint8_t z[64] = {0};
  gbuf *gcv = galloc_in(z, 32, 4, 0), *gblk = galloc_in(z, 64, 1, 0), *gout = galloc_out(64, 1, 0);
  static const uint8_t W[10] = {64, 64, 8, 64, 8, 64, 64, 64, 64, 64};
  uint64_t a[10] = {(uintptr_t)gcv->p, (uintptr_t)gblk->p, 64, 0, 0, (uintptr_t)gout->p};
  int ms = !strncmp(t[1], "ms_", 3);
  if (ms) { /* out is the 6th argument in both conventions; nothing else matters here */
  }
  kcall(fn, ms, a, W, out);
  sb_tok(out, "done");
}

/* DET: what the library detects vs. what the harness (compiler builtins) sees */
static void case_det(sb *out) {
  atomic_store(&g_cpu_features, HF_UNDEFINED);
  int lib = get_cpu_features();
  sb_tok(out, "%d", lib);
  sb_tok(out, "%d", g_host_features);
  sb_tok(out, "%zu", blake3_simd_degree());
}

/* ------------------------------------------------------------------ */
/* case dispatch                                                        */
/* ------------------------------------------------------------------ */
static int tokenize(char *s, char ***tp) {
  int n = 0, cap = 16;
  char **t = xmalloc(sizeof(*t) * (size_t)cap);
  char *save = NULL;
  for (char *w = strtok_r(s, " \t\r\n", &save); w; w = strtok_r(NULL, " \t\r\n", &save)) {
    if (n == cap) {
      cap *= 2;
      t = realloc(t, sizeof(*t) * (size_t)cap);
      if (!t) die("out of memory");
    }
    t[n++] = w;
  }
  *tp = t;
  return n;
}

static void run_simple(char *text, sb *out, int in_thr);

/* runs one non-THR case with fault recovery; appends tokens to out */
static void run_guarded(char *text, sb *out, int in_thr) {
  cctx c;
  memset(&c, 0, sizeof c);
  cctx *saved = tctx;
  tctx = &c;
  int sig = sigsetjmp(c.jb, 1);
  if (sig == 0) {
    c.armed = 1;
    run_simple(text, out, in_thr);
    c.armed = 0;
    gfree_all(&c, 1);
    if (c.oob) sb_tok(out, "oob");
  } else {
    c.armed = 0;
    if (g_verbose) { /* C_VERBOSE=1: where did it fault, relative to the buffers of this case */
      fprintf(stderr, "fault: signal %d addr %p pc %p\n", sig, t_fault_addr, t_fault_pc);
      for (size_t i = 0; i < c.nb; i++) {
        gbuf *b = c.bufs[i];
        if (!b->live) continue;
        uint8_t *a = t_fault_addr;
        const char *rel = (a >= b->map && a < b->map + b->maplen) ? (a < b->p ? "  <-- fault BEFORE this buffer" : a >= b->p + b->n ? "  <-- fault PAST this buffer" : "  <-- fault INSIDE this buffer (read-only?)") : "";
        fprintf(stderr, "  buf#%zu p=%p n=%zu end=%p%s\n", i, (void *)b->p, b->n, (void *)(b->p + b->n), rel);
      }
    }
    gfree_all(&c, 0);
    sb_tok(out, sig == SIGABRT ? "ABORT" : "FAULT");
  }
  free(c.bufs);
  tctx = saved;
}

static void run_simple(char *text, sb *out, int in_thr) {
  char **t;
  int nt = tokenize(text, &t);
  if (nt == 0) die("empty case");
  if (!strcmp(t[0], "CH"))
    case_ch(t, nt, out, in_thr);
  else if (!strcmp(t[0], "kcip"))
    case_compress(0, t, nt, out);
  else if (!strcmp(t[0], "kxof"))
    case_compress(1, t, nt, out);
  else if (!strcmp(t[0], "khm"))
    case_hash_many(t, nt, out);
  else if (!strcmp(t[0], "kxm"))
    case_xof_many(t, nt, out, in_thr);
  else if (!strcmp(t[0], "DET"))
    case_det(out);
  else if (!strcmp(t[0], "selfchk"))
    case_selfchk(t, nt, out);
  else
    die("unknown case kind '%s'", t[0]);
  free(t);
}

/* THR <nthreads> <case>|<case>|... */
typedef struct {
  char *text;
  sb out;
  pthread_barrier_t *bar;
  uint64_t delay_ns; /* C_THR_STAGGER_NS * thread index: spread the threads' first library calls */
} thr_arg;

static void *thr_main(void *p) {
  thr_arg *a = p;
  pthread_barrier_wait(a->bar);
  if (a->delay_ns) {
    struct timespec t0, t1;
    clock_gettime(CLOCK_MONOTONIC, &t0);
    do {
      clock_gettime(CLOCK_MONOTONIC, &t1);
    } while ((uint64_t)(t1.tv_sec - t0.tv_sec) * 1000000000ull + (uint64_t)t1.tv_nsec - (uint64_t)t0.tv_nsec < a->delay_ns);
  }
  run_guarded(a->text, &a->out, 1);
  return NULL;
}

static void case_thr(char *rest, sb *out) {
  while (*rest == ' ') rest++;
  char *sp = strchr(rest, ' ');
  if (!sp) die("THR: <nthreads> <cases> expected");
  *sp = 0;
  size_t nthreads = (size_t)parse_u64(rest);
  if (nthreads == 0 || nthreads > 1024) die("THR: bad thread count");
  /* split the cases on '|' */
  size_t ncases = 0, cap = 8;
  char **cases = xmalloc(cap * sizeof *cases);
  char *save = NULL;
  for (char *w = strtok_r(sp + 1, "|", &save); w; w = strtok_r(NULL, "|", &save)) {
    if (ncases == cap) {
      cap *= 2;
      cases = realloc(cases, cap * sizeof *cases);
    }
    cases[ncases++] = w;
  }
  if (ncases == 0) die("THR: no cases");
  thr_arg *args = xmalloc(nthreads * sizeof *args);
  pthread_t *tids = xmalloc(nthreads * sizeof *tids);
  pthread_barrier_t bar;
  pthread_barrier_init(&bar, NULL, (unsigned)nthreads + 1);
  /* the process must look as if nothing had been detected yet */
  atomic_store(&g_cpu_features, HF_UNDEFINED);
  size_t started = 0;
  for (size_t i = 0; i < nthreads; i++) {
    args[i].text = strdup(cases[i % ncases]);
    memset(&args[i].out, 0, sizeof(sb));
    args[i].bar = &bar;
    args[i].delay_ns = getenv("C_THR_STAGGER_NS") ? (uint64_t)i * strtoull(getenv("C_THR_STAGGER_NS"), NULL, 10) : 0;
    if (pthread_create(&tids[i], NULL, thr_main, &args[i])) die("pthread_create failed");
    started++;
  }
  pthread_barrier_wait(&bar);
  for (size_t i = 0; i < started; i++) pthread_join(tids[i], NULL);
  pthread_barrier_destroy(&bar);
  for (size_t i = 0; i < nthreads; i++) {
    if (i) sb_tok(out, "|");
    if (args[i].out.n) {
      sb_sep(out);
      sb_raw(out, args[i].out.s, args[i].out.n);
    }
    free(args[i].out.s);
    free(args[i].text);
  }
  free(args);
  free(tids);
  free(cases);
}

int main(void) {
  PS = (size_t)sysconf(_SC_PAGESIZE);
  const char *e;
  g_guard = (e = getenv("C_GUARD")) && !strcmp(e, "1");
  if ((e = getenv("C_GUARD_SIDE")) && !strcmp(e, "lo")) g_side_hi = 0;
  if ((e = getenv("C_ARGJUNK"))) g_argjunk = atoi(e);
  g_hm_contig = (e = getenv("C_HM_LAYOUT")) && !strcmp(e, "contig");
  g_verbose = (e = getenv("C_VERBOSE")) && !strcmp(e, "1");
  g_host_features = host_features();
  install_handlers();

  char *line = NULL;
  size_t cap = 0;
  ssize_t len;
  while ((len = getline(&line, &cap, stdin)) > 0) {
    while (len > 0 && (line[len - 1] == '\n' || line[len - 1] == '\r')) line[--len] = 0;
    char *p = line;
    while (*p == ' ') p++;
    if (!*p) continue;
    char *sp = strchr(p, ' ');
    const char *id = p;
    char *rest = sp ? sp + 1 : p + strlen(p);
    if (sp) *sp = 0;
    sb out = {0};
    while (*rest == ' ') rest++;
    if (!strncmp(rest, "THR ", 4))
      case_thr(rest + 4, &out);
    else
      run_guarded(rest, &out, 0);
    fputs(id, stdout);
    fputc(' ', stdout);
    if (out.n) fwrite(out.s, 1, out.n, stdout);
    fputc('\n', stdout);
    fflush(stdout);
    free(out.s);
  }
  free(line);
  return 0;
}
