(* Symbolic BLAKE3 trees.  Chaining values are hashes, so "this CV is the CV of
   that subtree" cannot be decided by looking at the bytes; the proofs therefore
   track, next to every list of CVs the models compute, the list of symbolic
   trees those CVs are the values of.  Pairing adjacent trees (pairT) mirrors one
   layer of parent compression; Cond ts t says that repeatedly pairing ts ends in
   the single tree t. *)
From V Require Import Proofs.ListP.
From V Require Import Base.Res Base.Word Spec.Compress Spec.Tree.
Open Scope N_scope.

Inductive tree :=
| Leaf (ctr : N) (bytes : list N)
| Node (l r : tree).

Fixpoint pairT (ts : list tree) : list tree :=
  match ts with
  | a :: b :: tl => Node a b :: pairT tl
  | _ => ts
  end.

Fixpoint iterP (m : nat) (ts : list tree) : list tree :=
  match m with O => ts | S m' => pairT (iterP m' ts) end.

Definition Cond (ts : list tree) (t : tree) : Prop := exists m, iterP m ts = [t].

Lemma pairT_length : forall ts, length (pairT ts) = Nat.div (length ts + 1) 2.
Proof.
  fix IH 1. intros [|a [|b tl]]; [reflexivity|reflexivity|].
  cbn [pairT length]. rewrite IH.
  replace (S (S (length tl)) + 1)%nat with (length tl + 1 + 1 * 2)%nat by lia.
  rewrite Nat.div_add by lia. lia.
Qed.

Lemma pairT_app : forall L R, Nat.even (length L) = true -> pairT (L ++ R) = pairT L ++ pairT R.
Proof.
  fix IH 1. intros [|a [|b tl]] R H; [reflexivity|discriminate|].
  cbn [app pairT]. f_equal. apply IH. exact H.
Qed.

Lemma iter_pairT_single m t : iterP m [t] = [t].
Proof. induction m as [|m IH]; [reflexivity|]. cbn [iterP]. rewrite IH. reflexivity. Qed.

Lemma iter_S_inner m x : iterP (S m) x = iterP m (pairT x).
Proof. induction m as [|m IH]; [reflexivity|]. cbn [iterP] in *. rewrite IH. reflexivity. Qed.

Lemma iter_add a b x : iterP (a + b) x = iterP a (iterP b x).
Proof. induction a as [|a IH]; [reflexivity|]. cbn [Nat.add iterP]. rewrite IH. reflexivity. Qed.

Lemma Cond_single t : Cond [t] t.
Proof. exists 0%nat. reflexivity. Qed.

(* once a singleton, always the same singleton *)
Lemma Cond_iter ts t m x : Cond ts t -> iterP m ts = [x] -> x = t.
Proof.
  intros [k Hk] Hm.
  destruct (Nat.le_ge_cases k m) as [H|H].
  - replace m with ((m - k) + k)%nat in Hm by lia. rewrite iter_add, Hk, iter_pairT_single in Hm.
    congruence.
  - replace k with ((k - m) + m)%nat in Hk by lia. rewrite iter_add, Hm, iter_pairT_single in Hk.
    congruence.
Qed.

Lemma Cond_pairT ts t : Cond ts t -> 2 <= N.of_nat (length ts) -> Cond (pairT ts) t.
Proof.
  intros [k Hk] Hl. destruct k as [|k].
  - cbn in Hk. rewrite Hk in Hl. cbn in Hl. lia.
  - exists k. rewrite <- iter_S_inner. exact Hk.
Qed.

Lemma pow2_even a : (0 < a)%nat -> Nat.even (2 ^ a) = true.
Proof. intros H. destruct a; [lia|]. rewrite Nat.pow_succ_r'. rewrite Nat.even_mul. reflexivity. Qed.

Lemma iter_pairT_length_pow2 : forall j a ts, (j <= a)%nat -> length ts = (2 ^ a)%nat ->
  length (iterP j ts) = (2 ^ (a - j))%nat.
Proof.
  induction j as [|j IH]; intros a ts Hj Hl.
  - rewrite Nat.sub_0_r. exact Hl.
  - cbn [iterP]. rewrite pairT_length. rewrite (IH a) by (lia || assumption).
    replace (a - j)%nat with (S (a - S j)) by lia. rewrite Nat.pow_succ_r'.
    replace (2 * 2 ^ (a - S j) + 1)%nat with (1 + 2 ^ (a - S j) * 2)%nat by lia.
    rewrite Nat.div_add by lia. reflexivity.
Qed.

Lemma iter_pairT_app : forall j a L R, (j <= a)%nat -> length L = (2 ^ a)%nat ->
  iterP j (L ++ R) = iterP j L ++ iterP j R.
Proof.
  induction j as [|j IH]; intros a L R Hj Hl; [reflexivity|].
  cbn [iterP]. rewrite (IH a) by (lia || assumption).
  apply pairT_app. rewrite (iter_pairT_length_pow2 j a) by (lia || assumption).
  apply pow2_even. lia.
Qed.

Lemma iter_pairT_length_le : forall j a ts, (length ts <= 2 ^ a)%nat -> (j <= a)%nat ->
  (length (iterP j ts) <= 2 ^ (a - j))%nat.
Proof.
  induction j as [|j IH]; intros a ts Hl Hj.
  - rewrite Nat.sub_0_r. exact Hl.
  - cbn [iterP]. rewrite pairT_length. specialize (IH a ts Hl ltac:(lia)).
    replace (a - j)%nat with (S (a - S j)) in IH by lia. rewrite Nat.pow_succ_r' in IH.
    assert (H : (Nat.div (length (iterP j ts) + 1) 2 < S (2 ^ (a - S j)))%nat)
      by (apply Nat.div_lt_upper_bound; lia).
    lia.
Qed.

Lemma iter_pairT_nonempty : forall j ts, ts <> [] -> iterP j ts <> [].
Proof.
  induction j as [|j IH]; intros ts H; [exact H|].
  cbn [iterP]. specialize (IH ts H). destruct (iterP j ts) as [|a [|b tl]]; cbn; congruence.
Qed.

(* the join lemma: a full power-of-two left part and a right part that is not longer *)
Lemma Cond_join a L R tl tr :
  length L = (2 ^ a)%nat -> (1 <= length R <= 2 ^ a)%nat -> Cond L tl -> Cond R tr ->
  Cond (L ++ R) (Node tl tr).
Proof.
  intros HL HR CL CR. exists (S a). cbn [iterP].
  rewrite (iter_pairT_app a a) by (lia || assumption).
  pose proof (iter_pairT_length_pow2 a a L (le_n a) HL) as H1. rewrite Nat.sub_diag in H1.
  pose proof (iter_pairT_length_le a a R ltac:(lia) (le_n a)) as H2. rewrite Nat.sub_diag in H2.
  assert (HRne : R <> []) by (destruct R; [cbn in HR; lia|discriminate]).
  pose proof (iter_pairT_nonempty a R HRne) as H3.
  destruct (iterP a L) as [|x [|? ?]] eqn:EL; try (cbn in H1; lia).
  destruct (iterP a R) as [|y [|? ?]] eqn:ER; try (cbn in H2; lia); try congruence.
  rewrite (Cond_iter L tl a x CL EL), (Cond_iter R tr a y CR ER). reflexivity.
Qed.

Section TreeEval.
  Variable c8 : list N -> list N -> N -> N -> N -> list N.
  Variables (K : list N) (F : N).

  Fixpoint tree_cv (t : tree) : list N :=
    chaining_value c8
      (match t with
       | Leaf c b => chunk_output c8 K F c b
       | Node l r => parent_output K F (tree_cv l) (tree_cv r)
       end).

  Definition tree_out (t : tree) : output :=
    match t with
    | Leaf c b => chunk_output c8 K F c b
    | Node l r => parent_output K F (tree_cv l) (tree_cv r)
    end.

  Lemma tree_cv_out t : tree_cv t = chaining_value c8 (tree_out t).
  Proof. destruct t; reflexivity. Qed.

  Fixpoint spec_tree (h : nat) (ctr : N) (bytes : list N) : tree :=
    match h with
    | O => Leaf ctr bytes
    | S h' =>
        if len bytes <=? 1024 then Leaf ctr bytes
        else let l := left_len (len bytes) in
             Node (spec_tree h' ctr (take l bytes)) (spec_tree h' (ctr + l / 1024) (drop l bytes))
    end.

  Lemma subtree_output_tree h : forall ctr bytes,
    subtree_output c8 h K F ctr bytes = tree_out (spec_tree h ctr bytes).
  Proof.
    induction h as [|h IH]; intros ctr bytes; [reflexivity|].
    cbn [subtree_output spec_tree]. destruct (len bytes <=? 1024); [reflexivity|].
    cbn [tree_out]. rewrite !tree_cv_out, !IH. reflexivity.
  Qed.
End TreeEval.

Lemma subtree_output_unfold c8 h K F ctr bytes :
  subtree_output c8 (S h) K F ctr bytes =
  if len bytes <=? 1024 then chunk_output c8 K F ctr bytes
  else let l := left_len (len bytes) in
       parent_output K F
         (chaining_value c8 (subtree_output c8 h K F ctr (take l bytes)))
         (chaining_value c8 (subtree_output c8 h K F (ctr + l / 1024) (drop l bytes))).
Proof. reflexivity. Qed.

Lemma spec_tree_unfold h ctr bytes :
  spec_tree (S h) ctr bytes =
  if len bytes <=? 1024 then Leaf ctr bytes
  else let l := left_len (len bytes) in
       Node (spec_tree h ctr (take l bytes)) (spec_tree h (ctr + l / 1024) (drop l bytes)).
Proof. reflexivity. Qed.

Lemma tree_height_S : tree_height = S 63.
Proof. reflexivity. Qed.

(* ---- arithmetic of the tree shape --------------------------------------------- *)
Definition chunks (n : N) : N := (n + 1023) / 1024.

Lemma left_len_spec n : 1024 < n ->
  exists a, left_len n = 1024 * 2 ^ a /\ 1024 * 2 ^ a < n <= 1024 * 2 ^ (a + 1).
Proof.
  intros H. unfold left_len. set (q := (n - 1) / 1024).
  assert (Hq : 0 < q) by (unfold q; lia).
  exists (N.log2 q). split; [reflexivity|].
  pose proof (N.log2_spec q Hq) as [H1 H2].
  rewrite N.add_1_r. unfold q in *. lia.
Qed.

Lemma pow2_pos a : 0 < 2 ^ a.
Proof. apply N.neq_0_lt_0. apply N.pow_nonzero. discriminate. Qed.

Lemma spec_tree_fuel : forall h1 h2 ctr bytes,
  len bytes <= 1024 * 2 ^ N.of_nat h1 -> len bytes <= 1024 * 2 ^ N.of_nat h2 ->
  spec_tree h1 ctr bytes = spec_tree h2 ctr bytes.
Proof.
  induction h1 as [|h1 IH]; intros h2 ctr bytes H1 H2.
  - change (2 ^ N.of_nat 0) with 1 in H1. destruct h2; cbn [spec_tree]; [reflexivity|].
    replace (len bytes <=? 1024) with true by lia. reflexivity.
  - cbn [spec_tree]. destruct (len bytes <=? 1024) eqn:E.
    + destruct h2; cbn [spec_tree]; [reflexivity|]. rewrite E. reflexivity.
    + destruct h2 as [|h2].
      * change (2 ^ N.of_nat 0) with 1 in H2. lia.
      * cbn [spec_tree]. rewrite E.
        destruct (left_len_spec (len bytes) ltac:(lia)) as (a & Hl & Hlo & Hhi).
        rewrite Hl. rewrite !Nat2N.inj_succ, !N.pow_succ_r' in *.
        assert (Ha1 : 2 ^ a < 2 * 2 ^ N.of_nat h1) by lia.
        assert (Ha2 : 2 ^ a < 2 * 2 ^ N.of_nat h2) by lia.
        rewrite <- N.pow_succ_r' in Ha1, Ha2.
        apply N.pow_lt_mono_r_iff in Ha1; [|lia]. apply N.pow_lt_mono_r_iff in Ha2; [|lia].
        assert (Hp1 : 2 ^ a <= 2 ^ N.of_nat h1) by (apply N.pow_le_mono_r; lia).
        assert (Hp2 : 2 ^ a <= 2 ^ N.of_nat h2) by (apply N.pow_le_mono_r; lia).
        rewrite N.add_1_r, N.pow_succ_r' in Hhi.
        f_equal; apply IH; rewrite ?len_take, ?len_drop; lia.
Qed.
