(* Parses `CH <mode> <mask> <ops...>` case lines (grammar: header comment of
   harness/c/driver.c) into the extracted CHasher.c_op type, runs
   CHasher.c_run_case on the platform the mask selects, prints the observations
   with the same tokens as the C harness. *)
open Model
open Bytespec

(* blake3_simd_degree() at each forced cumulative feature level; MAX_SIMD_DEGREE is the
   C header's constant inside CHasher.c_platform *)
let platform_of = function
  | "portable" -> c_platform (n_of_int 1)
  | "sse2" | "sse41" -> c_platform (n_of_int 4)
  | "avx2" -> c_platform (n_of_int 8)
  | "avx512" -> c_platform (n_of_int 16)
  | "detect" ->
    c_platform (n_of_int (match (try Sys.getenv "VERIF_DETECTED" with Not_found -> "AVX512") with
        | "Portable" -> 1 | "SSE2" | "SSE41" -> 4 | "AVX2" -> 8 | _ -> 16))
  | s -> failwith ("mask " ^ s)

let mode_of (s : string) : c_mode =
  match String.index_opt s '=' with
  | None -> if s = "hash" then CMHash else failwith "mode"
  | Some i ->
    let k = String.sub s 0 i and v = String.sub s (i + 1) (String.length s - i - 1) in
    (match k with
     | "keyed" -> CMKeyed (parse v)
     | "derive" -> CMDerive (parse v)
     | "deriveraw" -> CMDeriveRaw (parse v)
     | _ -> failwith "mode")

let nat_of_string s = nat_of_int (int_of_string s)

let op_of (tok : string) : c_op =
  match String.split_on_char ':' tok with
  | ["n"] -> COpNew
  | ["u"; i; b] -> COpUpdate (nat_of_string i, parse b)
  (* update_tbb with a scripted join: same function as update (C08 compares the real runs) *)
  | ["ut"; i; b; _] -> COpUpdate (nat_of_string i, parse b)
  | ["u0"; i] -> COpUpdate0 (nat_of_string i)
  | ["f"; i; n] -> COpFinalize (nat_of_string i, n_of_string n)
  | ["fs"; i; s; n] -> COpFinalizeSeek (nat_of_string i, n_of_string s, n_of_string n)
  | ["f0"; i] -> COpFinalize0 (nat_of_string i)
  | ["r"; i] -> COpReset (nat_of_string i)
  | ["cl"; i] -> COpClone (nat_of_string i)
  | ["cmp"; i; j] -> COpCmp (nat_of_string i, nat_of_string j)
  | _ -> failwith ("CH op " ^ tok)

let obs_token = function
  | CObXof b -> "x" ^ hex_of_nlist b
  | CObOk -> "ok"
  | CObSame b -> if b then "same" else "diff"

let status_tokens = function
  | Ok _ -> []
  | Panic c -> [if debug_only c then "PANIC_DBG" else "PANIC"]
  | OutOfFuel -> ["OUTOFFUEL"]

let run_case (toks : string list) : string list =
  match toks with
  | "CH" :: mode :: mask :: ops ->
    let (obs, st) = c_run_case (platform_of mask) (mode_of mode) (List.map op_of ops) in
    List.map obs_token obs @ status_tokens st
  | _ -> failwith "bad CH case"
