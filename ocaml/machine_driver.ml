(* temporary: one-shot ops only *)
open Model
open Bytespec
let platform_of = function
  | "portable" -> sim_platform (n_of_int 1) (n_of_int 16)
  | "sse2" | "sse41" -> sim_platform (n_of_int 4) (n_of_int 16)
  | "avx2" -> sim_platform (n_of_int 8) (n_of_int 16)
  | "avx512" | "detect" -> sim_platform (n_of_int 16) (n_of_int 16)
  | s -> failwith ("platform " ^ s)
let res_hex = function
  | Ok h -> hex_of_nlist h
  | Panic c -> if debug_only c then "PANIC_DBG" else "PANIC"
  | OutOfFuel -> "OUTOFFUEL"
let run_case (k : string) (toks : string list) : string list =
  match toks with
  | "H" :: mode :: plat :: ops ->
    let p = platform_of plat in
    List.map (fun op -> match String.split_on_char ':' op with
      | ["oh"; b] ->
        (match String.split_on_char '=' mode with
         | ["hash"] -> res_hex (rs_hash p (parse b))
         | ["keyed"; k] -> res_hex (rs_keyed_hash p (parse k) (parse b))
         | ["derive"; c] | ["derivek"; c] -> res_hex (rs_derive_key p (parse c) (parse b))
         | _ -> failwith "mode")
      | ["sh"; b] -> hex_of_nlist (b3_hash (parse b))
      | _ -> failwith ("op " ^ op)) ops
  | _ -> failwith ("unknown case kind " ^ k)
