#!/usr/bin/env python3
"""Build and run the C-side harness (harness/c) for the BLAKE3 C library and SIMD kernels.

  build(variant, sanitizer=None, cc=None) -> (binary path or None, log)
      variant   'asm'      blake3.c blake3_dispatch.c blake3_portable.c + *_x86-64_unix.S, plus the four
                           *_x86-64_windows_gnu.S assembled as ELF with a win_ symbol prefix (ms_abi)
                'intr'     same C files + blake3_{sse2,sse41,avx2,avx512}.c (intrinsics), no assembly
                'tbbseam'  like 'asm' (without the Windows files) but blake3.c is compiled with -DBLAKE3_USE_TBB and
                           linked against harness/c/tbbseam.c (scripted join)
      sanitizer None | 'asan' (-fsanitize=address,undefined) | 'tsan' (-fsanitize=thread)
  run(binary, lines, env=None, stderr=None) -> {id: result}
  python3 tools/charness.py selftest [--quick]
  python3 tools/charness.py build <variant> [sanitizer]
  python3 tools/charness.py run <variant> [sanitizer] < cases     (honours C_GUARD, C_GUARD_SIDE, C_ARGJUNK)

Everything is built under $C_BUILD_DIR (default <framework>/build/c). Objects are cached by a hash of compiler, flags,
source text and the two headers, so only what changed in /repo/c (or harness/c) is rebuilt.
"""
import concurrent.futures
import hashlib
import os
import random
import re
import shutil
import subprocess
import sys
import time
import uuid

V = os.path.dirname(os.path.dirname(os.path.abspath(__file__)))
REPO = os.environ.get("VERIF_REPO", "/repo")
REPO_C = os.path.join(REPO, "c")
HC = os.path.join(V, "harness", "c")
BUILD = os.environ.get("C_BUILD_DIR") or os.path.join(V, "build", "c")
NPROC = os.cpu_count() or 4

LIB_C = ["blake3.c", "blake3_dispatch.c", "blake3_portable.c"]
UNIX_S = ["blake3_sse2_x86-64_unix.S", "blake3_sse41_x86-64_unix.S", "blake3_avx2_x86-64_unix.S",
          "blake3_avx512_x86-64_unix.S"]
WIN_S = ["blake3_sse2_x86-64_windows_gnu.S", "blake3_sse41_x86-64_windows_gnu.S", "blake3_avx2_x86-64_windows_gnu.S",
         "blake3_avx512_x86-64_windows_gnu.S"]
INTR_C = [("blake3_sse2.c", ["-msse2"]), ("blake3_sse41.c", ["-msse4.1"]), ("blake3_avx2.c", ["-mavx2"]),
          ("blake3_avx512.c", ["-mavx512f", "-mavx512vl"])]
SAN_FLAGS = {None: [], "asan": ["-fsanitize=address,undefined", "-fno-omit-frame-pointer", "-g"],
             "tsan": ["-fsanitize=thread", "-g"]}
# directives that only make sense for COFF/PE objects; none of them may occur in the Windows-GNU files
COFF_ONLY = re.compile(r"^\s*\.(def|scl|endef|linkonce|secrel32|secidx|seh_\w+|rva|type\s+\d+)\b", re.M)


def _sh(cmd, cwd=None, timeout=600):
    try:
        p = subprocess.run(cmd, cwd=cwd, stdout=subprocess.PIPE, stderr=subprocess.STDOUT, text=True, timeout=timeout)
        return p.returncode, p.stdout
    except subprocess.TimeoutExpired:
        return 124, "[timeout] " + " ".join(cmd)


def _read(p):
    with open(p, "rb") as f:
        return f.read()


def _h(*parts):
    h = hashlib.sha256()
    for x in parts:
        h.update(x if isinstance(x, bytes) else str(x).encode())
        h.update(b"\0")
    return h.hexdigest()[:16]


def cpu_feature_defs():
    """-DHF_* from enum cpu_feature in blake3_dispatch.c (so that a renumbering in the repo is followed)."""
    text = _read(os.path.join(REPO_C, "blake3_dispatch.c")).decode()
    m = re.search(r"enum\s+cpu_feature\s*\{(.*?)\}", text, re.S)
    defs, names = [], {}
    if m:
        for name, sh in re.findall(r"(\w+)\s*=\s*1\s*<<\s*(\d+)", m.group(1)):
            names[name] = int(sh)
    want = ["SSE2", "SSSE3", "SSE41", "AVX", "AVX2", "AVX512F", "AVX512VL", "UNDEFINED"]
    if not all(w in names for w in want):
        return None
    for w in want:
        defs.append("-DHF_%s=%d" % (w, 1 << names[w]))
    return defs


class _Builder:
    def __init__(self, cc, san):
        self.cc, self.san = cc, san
        self.log = []
        self.ok = True
        self.objdir = os.path.join(BUILD, "obj")
        os.makedirs(self.objdir, exist_ok=True)
        rc, ver = _sh([cc, "--version"])
        self.ccid = ver.split("\n")[0] if rc == 0 else cc
        self.hdr = b"".join(_read(os.path.join(REPO_C, h)) for h in ("blake3.h", "blake3_impl.h"))

    def compile(self, src, flags, tag, text=None):
        """Compile one source (or the given replacement text for it) to a cached object."""
        data = text.encode() if text is not None else _read(src)
        key = _h(self.ccid, " ".join(flags), os.path.basename(src), data, self.hdr, tag)
        obj = os.path.join(self.objdir, "%s-%s-%s.o" % (os.path.basename(src).replace(".", "_"), tag, key))
        if os.path.exists(obj):
            return obj
        real = src
        if text is not None:
            real = os.path.join(self.objdir, "tmp-%s-%s-%s" % (key, uuid.uuid4().hex[:8], os.path.basename(src)))
            with open(real, "w") as f:
                f.write(text)
        tmp = obj + ".tmp" + uuid.uuid4().hex
        cmd = [self.cc] + flags + ["-I", REPO_C, "-c", real, "-o", tmp]
        rc, out = _sh(cmd)
        self.log.append("$ " + " ".join(cmd) + "\n" + out)
        if text is not None:
            os.unlink(real)
        if rc != 0:
            self.ok = False
            return None
        os.replace(tmp, obj)
        return obj

    def winasm(self, name):
        """Windows-GNU assembly as an ELF object: only `.section .rdata` -> `.section .rodata`; symbols get win_."""
        text = _read(os.path.join(REPO_C, name)).decode()
        bad = COFF_ONLY.findall(text)
        if bad:
            self.log.append("%s: COFF-only directives present: %s" % (name, sorted(set(bad))))
            self.ok = False
            return None
        new, n = re.subn(r"^(\s*)\.section(\s+)\.rdata\s*$", r"\1.section\2.rodata", text, flags=re.M)
        if n != 1:
            self.log.append("%s: expected exactly one `.section .rdata`, found %d" % (name, n))
            self.ok = False
            return None
        # nothing else may differ
        a, b = text.split("\n"), new.split("\n")
        diff = [(x, y) for x, y in zip(a, b) if x != y]
        assert len(a) == len(b) and len(diff) == 1 and diff[0][0].strip() == ".section .rdata", diff
        raw = self.compile(os.path.join(REPO_C, name), ["-Wa,--noexecstack"], "winraw", text=new)
        if raw is None:
            return None
        obj = raw[:-2] + "-pfx.o"
        if not os.path.exists(obj):
            tmp = obj + ".tmp" + uuid.uuid4().hex
            cmd = ["objcopy", "--prefix-symbols=win_", raw, tmp]
            rc, out = _sh(cmd)
            self.log.append("$ " + " ".join(cmd) + "\n" + out)
            if rc != 0:
                self.ok = False
                return None
            os.replace(tmp, obj)
        return obj


def build(variant, sanitizer=None, cc=None):
    """Returns (path of the driver binary or None, build log)."""
    if variant not in ("asm", "intr", "tbbseam"):
        raise ValueError("variant must be asm|intr|tbbseam")
    if sanitizer not in SAN_FLAGS:
        raise ValueError("sanitizer must be None|asan|tsan")
    cc = cc or os.environ.get("C_CC") or "gcc"
    if not shutil.which(cc):
        return None, "compiler %s not found" % cc
    b = _Builder(cc, sanitizer)
    san = SAN_FLAGS[sanitizer]
    tag = "%s-%s" % (os.path.basename(cc), sanitizer or "plain")
    hf = cpu_feature_defs()
    if hf is None:
        return None, "cannot parse enum cpu_feature in blake3_dispatch.c"
    base = ["-O2", "-DBLAKE3_TESTING"] + san
    objs = []
    for f in LIB_C:
        fl = list(base)
        t = tag
        if variant == "tbbseam" and f == "blake3.c":
            fl.append("-DBLAKE3_USE_TBB")
            t += "-tbb"
        objs.append(b.compile(os.path.join(REPO_C, f), fl, t))
    dflags = ["-O1", "-Wall", "-Wextra", "-Wno-unused-parameter", "-DBLAKE3_TESTING", "-pthread"] + san + hf
    if variant in ("asm", "tbbseam"):
        for f in UNIX_S:
            objs.append(b.compile(os.path.join(REPO_C, f), [], "unix"))
        dflags.append("-DNATIVE_ASM")
    else:
        for f, extra in INTR_C:
            objs.append(b.compile(os.path.join(REPO_C, f), base + extra, tag))
        dflags.append("-DNATIVE_C")
    if variant == "asm":
        for f in WIN_S:
            objs.append(b.winasm(f))
        dflags.append("-DHAVE_WINASM")
    if variant == "tbbseam":
        dflags += ["-DHAVE_TBBSEAM", "-DBLAKE3_USE_TBB"]
        objs.append(b.compile(os.path.join(HC, "tbbseam.c"),
                              ["-O1", "-Wall", "-DBLAKE3_TESTING", "-DBLAKE3_USE_TBB", "-pthread"] + san, tag))
    objs.append(b.compile(os.path.join(HC, "driver.c"), dflags, tag + "-" + variant))
    objs.append(b.compile(os.path.join(HC, "trampoline.S"), [], "tramp"))
    if not b.ok or any(o is None for o in objs):
        return None, "\n".join(b.log)
    bindir = os.path.join(BUILD, "bin")
    os.makedirs(bindir, exist_ok=True)
    binp = os.path.join(bindir, "cdriver-%s-%s-%s" % (variant, tag, _h(*sorted(objs))))
    if not os.path.exists(binp):
        tmp = binp + ".tmp" + uuid.uuid4().hex
        cmd = [cc] + san + ["-pthread", "-o", tmp] + objs
        rc, out = _sh(cmd)
        b.log.append("$ " + " ".join(cmd) + "\n" + out)
        if rc != 0:
            return None, "\n".join(b.log)
        os.replace(tmp, binp)
        # stable name for humans
        link = os.path.join(bindir, "cdriver-%s-%s" % (variant, tag))
        try:
            if os.path.lexists(link):
                os.unlink(link)
            os.symlink(os.path.basename(binp), link)
        except OSError:
            pass
    return binp, "\n".join(b.log)


def _run_chunk(cmd, chunk, env, timeout):
    try:
        p = subprocess.run(cmd, input="\n".join(chunk) + "\n", stdout=subprocess.PIPE, stderr=subprocess.PIPE,
                           text=True, timeout=timeout, env=env)
        return p.returncode, p.stdout, p.stderr
    except subprocess.TimeoutExpired:
        return 124, "", "timeout"


def run(binary, lines, env=None, stderr=None, shards=None, timeout=1200):
    """Run case lines (id-prefixed) through `binary`, sharded over processes. Returns {id: result string}.
    If a shard dies, the cases it did not answer are re-run one per process, so only the culprit reads CRASH.
    `stderr`, if a list, collects (case ids, text) for every process that wrote to stderr (sanitizer reports)."""
    lines = [l for l in lines if l.strip()]
    if not lines:
        return {}
    shards = shards or min(NPROC, max(1, len(lines) // 4))
    chunks = [lines[i::shards] for i in range(shards)]
    cmd = binary if isinstance(binary, list) else [binary]
    e = dict(os.environ)
    # a sanitizer report must not take the whole shard with it silently; keep going after UBSan reports
    e.setdefault("UBSAN_OPTIONS", "print_stacktrace=1:halt_on_error=0")
    e.setdefault("ASAN_OPTIONS", "detect_leaks=0:allow_user_segv_handler=1:handle_abort=0")
    e.setdefault("TSAN_OPTIONS", "halt_on_error=0:report_signal_unsafe=0")
    if env:
        e.update(env)
    res = {}

    def absorb(chunk, rc, out, err):
        got = set()
        for line in out.split("\n"):
            if not line.strip():
                continue
            cid, _, rest = line.partition(" ")
            res[cid] = rest
            got.add(cid)
        if err.strip() and stderr is not None:
            stderr.append(([c.split(" ", 1)[0] for c in chunk], err))
        return [c for c in chunk if c.split(" ", 1)[0] not in got]

    with concurrent.futures.ThreadPoolExecutor(max_workers=shards) as ex:
        retry = []
        for chunk, (rc, out, err) in zip(chunks, ex.map(lambda c: _run_chunk(cmd, c, e, timeout), chunks)):
            retry += absorb(chunk, rc, out, err)
        if retry:
            singles = [[c] for c in retry[:400]]
            for chunk, (rc, out, err) in zip(singles, ex.map(lambda c: _run_chunk(cmd, c, e, timeout), singles)):
                for c in absorb(chunk, rc, out, err):
                    res[c.split(" ", 1)[0]] = "CRASH rc=%s %s" % (rc, err.strip()[-300:].replace("\n", "|"))
            for c in retry[400:]:
                res[c.split(" ", 1)[0]] = "CRASH (shard died; not re-run)"
    return res


# ---------------------------------------------------------------------------
# self-test
# ---------------------------------------------------------------------------
IMPLS = ["portable", "sse2", "sse41", "avx2", "avx512"]
COMBOS = [("portable", "c")] + [(i, f) for i in IMPLS[1:] for f in ("asm", "c", "winasm")]
DEGREE = {"portable": 1, "sse2": 4, "sse41": 4, "avx2": 8, "avx512": 16}
MASKS = ["portable", "sse2", "sse41", "avx2", "avx512", "detect"]


def counters(n=0):
    cs = [0, 1, 1 << 32, 1 << 63]
    for k in range(18):
        cs += [(1 << 32) - k, (1 << 33) - k, (1 << 64) - 1 - n - k]
    return sorted(set(c for c in cs if 0 <= c < (1 << 64)))


def gen_compress_args(rng, quick):
    """argument strings for kcip/kxof: <cv> <block> <block_len> <counter> <flags>"""
    out = []

    def one(bl, ctr, fl):
        out.append("prng/%d/32 prng/%d/64 %d %d %d" % (rng.randrange(1 << 30), rng.randrange(1 << 30), bl, ctr, fl))
    for bl in range(65):
        one(bl, rng.choice(counters()), rng.randrange(256))
    for fl in range(256):
        one(rng.choice([0, 1, 63, 64]), rng.randrange(1 << 64), fl)
    for c in counters():
        one(64, c, rng.randrange(256))
    out.append("zero/0/32 zero/0/64 0 0 0")
    out.append("ff/0/32 ff/0/64 64 18446744073709551615 255")
    if quick:
        out = out[::4]
    return out


def gen_hash_many_args(rng, quick):
    """<num_inputs> <blocks> <key> <counter> <incr> <flags> <flags_start> <flags_end> <align_off> <seed>"""
    out = []
    aligns = list(range(16)) + [63]

    def one(n, blocks, ctr, incr, align):
        out.append("%d %d prng/%d/32 %d %d %d %d %d %d %d" % (
            n, blocks, rng.randrange(1 << 30), ctr, incr, rng.randrange(256), rng.randrange(256), rng.randrange(256),
            align, rng.randrange(1 << 30)))
    for n in range(0, 2 * 16 + 2):
        for blocks in (1, 16):
            for incr in (0, 1):
                one(n, blocks, rng.choice(counters(n)), incr, rng.choice(aligns))
    for a in aligns:
        for n in (1, 4, 5, 8, 9, 16, 17, 33):
            one(n, rng.choice((1, 16)), rng.randrange(1 << 64), rng.randrange(2), a)
    for n in (1, 3, 5, 9, 17, 33):
        for c in counters(n):
            one(n, rng.choice((1, 16)), c, 1, rng.choice(aligns))
            if rng.randrange(4) == 0:
                one(n, 1, c, 0, rng.choice(aligns))
    if quick:
        out = out[::6]
    return out


def gen_xof_many_args(rng, quick):
    """<cv> <block> <block_len> <counter> <flags> <nblocks>"""
    out = []
    for nb in range(1, 36):
        for c in ([0, (1 << 32) - 3, rng.randrange(1 << 64)] if not quick else [rng.choice(counters(nb))]):
            out.append("prng/%d/32 prng/%d/64 %d %d %d %d" % (rng.randrange(1 << 30), rng.randrange(1 << 30),
                                                             rng.randrange(65), c, rng.randrange(256), nb))
    for c in counters(35):
        out.append("prng/%d/32 prng/%d/64 64 %d %d %d" % (rng.randrange(1 << 30), rng.randrange(1 << 30), c,
                                                         rng.randrange(256), rng.choice([1, 2, 7, 8, 15, 16, 17, 35])))
    if quick:
        out = out[::3]
    return out


def kernel_cases(rng, quick):
    cases = []   # (id, kind, argidx, impl, flavour, line)
    for kind, args in (("kcip", gen_compress_args(rng, quick)), ("kxof", gen_compress_args(rng, quick)),
                       ("khm", gen_hash_many_args(rng, quick)), ("kxm", gen_xof_many_args(rng, quick))):
        for ai, a in enumerate(args):
            for impl, fl in COMBOS:
                cid = "%s.%d.%s.%s" % (kind, ai, impl, fl)
                cases.append((cid, kind, ai, impl, fl, "%s %s %s %s %s" % (cid, kind, impl, fl, a)))
    return cases


ASCII_CTX = ["BLAKE3 2019-12-27 16:29:52 test vectors context", "a", "", "x" * 64, "ctx " * 300]


def hexs(s):
    return "hex/" + s.encode().hex()


def gen_modes(rng):
    """(C mode, Rust mode)"""
    ms = [("hash", "hash")]
    k = "prng/%d/32" % rng.randrange(1 << 30)
    ms.append(("keyed=" + k, "keyed=" + k))
    for c in ASCII_CTX:
        if c:
            ms.append(("derive=" + hexs(c), "derive=" + hexs(c)))
        ms.append(("deriveraw=" + hexs(c), "derive=" + hexs(c)))
    return ms


LENS = [0, 1, 2, 63, 64, 65, 127, 128, 129, 1023, 1024, 1025, 2047, 2048, 2049, 3072, 3073, 4096, 4097, 5120, 6144,
        7168, 8192, 8193, 16384, 16385, 31744, 32768, 65536, 65537, 102400, 131072 + 1025, 262144 + 77]
OUTS = [1, 31, 32, 33, 63, 64, 65, 127, 128, 129, 191, 192, 1000, 1024, 2500]
SEEKS = [0, 1, 31, 63, 64, 65, 127, 128, 1000, (1 << 32) - 1, 1 << 32, (1 << 38) - 64, (1 << 38) - 1, (1 << 38) + 5,
         (1 << 63) - 7, (1 << 64) - 5000]


def bspec(rng, n):
    return rng.choice(["paint/%d/%d", "prng/%d/%d"]) % (rng.randrange(1 << 20), n)


def hasher_cases(rng, quick):
    """list of (id, C line, Rust line); the result tokens of both must agree"""
    out = []
    modes = gen_modes(rng)

    def add(cm, rm, mask, cops, rops):
        cid = "ch.%d" % len(out)
        out.append((cid, "%s CH %s %s %s" % (cid, cm, mask, " ".join(cops)),
                    "%s H %s %s %s" % (cid, rm, mask, " ".join(rops))))
    # one-shot lengths x masks
    for n in (LENS if not quick else LENS[::3]):
        for mask in MASKS:
            cm, rm = rng.choice(modes)
            b = bspec(rng, n)
            o = rng.choice(OUTS)
            add(cm, rm, mask, ["u:0:" + b, "f:0:%d" % o], ["u:0:" + b, "x:0:%d" % o])
    # every mode
    for cm, rm in modes:
        for mask in ("portable", "detect"):
            b = bspec(rng, rng.choice([0, 1, 1024, 5000, 70000]))
            add(cm, rm, mask, ["u:0:" + b, "f:0:32"], ["u:0:" + b, "x:0:32"])
    # seek
    for s in (SEEKS if not quick else SEEKS[::2]):
        for mask in MASKS:
            cm, rm = rng.choice(modes)
            b = bspec(rng, rng.choice([0, 1, 64, 1024, 1025, 4096, 9000]))
            o = rng.choice(OUTS)
            add(cm, rm, mask, ["u:0:" + b, "fs:0:%d:%d" % (s, o)], ["u:0:" + b, "xo:0", "rs:0:%d" % s, "rf:0:%d" % o])
    # histories: n u f r cl on several instances, zero-length and NULL updates, finalize leaves the hasher alone
    for _ in range(60 if quick else 400):
        cm, rm = rng.choice(modes)
        mask = rng.choice(MASKS)
        cops, rops, ni, nreaders = [], [], 1, 0
        for _ in range(rng.randrange(1, 12)):
            r = rng.randrange(100)
            i = rng.randrange(ni)
            if r < 45:
                n = rng.choice([0, 1, 3, 64, 100, 960, 1023, 1024, 1025, 2048, 3000, 4096, 8192, 10000, 40000])
                b = bspec(rng, n)
                cops.append("u:%d:%s" % (i, b))
                rops.append("u:%d:%s" % (i, b))
            elif r < 50:
                cops.append("u0:%d" % i)
            elif r < 70:
                o = rng.choice(OUTS)
                cops += ["cl:%d" % i, "f:%d:%d" % (i, o), "cmp:%d:%d" % (i, ni)]
                rops += ["cl:%d" % i, "x:%d:%d" % (i, o)]
                ni += 1
            elif r < 78:
                s, o = rng.choice(SEEKS), rng.choice(OUTS)
                cops.append("fs:%d:%d:%d" % (i, s, o))
                rops += ["xo:%d" % i, "rs:%d:%d" % (nreaders, s), "rf:%d:%d" % (nreaders, o)]
                nreaders += 1
            elif r < 82:
                cops.append("f0:%d" % i)
            elif r < 88:
                cops.append("r:%d" % i)
                rops.append("r:%d" % i)
            elif r < 94:
                cops.append("n")
                rops.append("n")
                ni += 1
            else:
                cops.append("cl:%d" % i)
                rops.append("cl:%d" % i)
                ni += 1
        cops.append("f:0:32")
        rops.append("x:0:32")
        add(cm, rm, mask, cops, rops)
    return out


def strip_c_only(tokens):
    """drop the tokens that only the C side prints (same / ok)"""
    return [t for t in tokens if t not in ("same", "ok")]


def tbb_cases(rng, quick):
    """(id, ut line, plain line)"""
    out = []
    for n in ([1024, 1025, 2048, 2049, 4096, 5000, 16384, 16385, 17 * 1024, 32768, 65536, 65537, 100000, 200000,
               1 << 20] if not quick else [2049, 16385, 65537, 200000]):
        for mask in MASKS:
            for _ in range(1 if quick else 3):
                script = "".join(rng.choice("012") for _ in range(rng.randrange(0, 40)))
                if rng.randrange(3) == 0:
                    script = rng.choice("012") * 64
                b = bspec(rng, n)
                pre = bspec(rng, rng.choice([0, 0, 1, 1024, 3000]))
                cid = "tbb.%d" % len(out)
                mode = rng.choice(["hash", "keyed=prng/7/32", "deriveraw=" + hexs("seam")])
                out.append((cid, "%s CH %s %s u:0:%s ut:0:%s:%s f:0:64" % (cid, mode, mask, pre, b, script),
                            "%s CH %s %s u:0:%s u:0:%s f:0:64" % (cid, mode, mask, pre, b)))
    return out


def thr_cases(rng, kcases, hcases, quick, builds_native):
    """THR lines + the sequential lines of their sub-cases. Sub-cases use `detect` (CH) or direct kernels."""
    out = []
    pool = [l.split(" ", 1)[1] for (_, l, _) in hcases if " detect " in l and len(l) < 4000]
    kpool = [c[5].split(" ", 1)[1] for c in kcases if c[3] == "portable" or c[4] == builds_native]
    kpool = [k for k in kpool if not (k.startswith("kxm") and " avx512 " not in k)]
    # keep the known over-read (K1) out of the thread pool: it is reported by the kernel rows already
    kpool = [k for k in kpool if not (k.startswith("khm") and k.split()[1] in ("avx2", "avx512")
                                      and k.split()[2] != "c" and int(k.split()[3]) % 8 >= 2)]
    for t in range(6 if quick else 40):
        n = rng.choice([2, 3, 4, 8, 16])
        subs = [rng.choice(pool) if rng.randrange(4) else rng.choice(kpool) for _ in range(n)]
        if t % 5 == 0:   # all threads race the very first detection on the same short input
            subs = ["CH hash detect u:0:paint/0/%d f:0:32" % rng.choice([1, 1024, 4096, 70000])] * n
        out.append(("thr.%d" % t, subs))
    return out


class Table:
    def __init__(self):
        self.rows = []
        self.findings = {}   # (what, klass) -> [count, first case line, first detail]
        self.known = {}      # key -> [count, first label, first case line, first detail]

    def add(self, what, cases, skipped, bad, known=0):
        self.rows.append((what, cases, skipped, known, bad))

    def finding(self, what, line, detail, klass=None):
        k = (what, klass or detail.split(":")[0][:40])
        e = self.findings.setdefault(k, [0, line, detail])
        e[0] += 1

    def known_finding(self, key, label, line, detail):
        e = self.known.setdefault(key, [0, label, line, detail])
        e[0] += 1

    def nbad(self):
        return sum(r[4] for r in self.rows)

    def show(self):
        w = max(len(r[0]) for r in self.rows) + 2
        print("%-*s %8s %8s %8s %8s" % (w, "check", "cases", "skipped", "known", "bad"))
        for what, c, s, k, b in self.rows:
            print("%-*s %8d %8d %8d %8d" % (w, what, c, s, k, b))
        print("total bad: %d   total known-finding hits: %d" % (self.nbad(), sum(r[3] for r in self.rows)))
        for key, (n, label, line, detail) in sorted(self.known.items()):
            print("KNOWN FINDING %s (%d hits): %s\n  first seen in: %s\n  case: %s\n  %s" %
                  (key, n, KNOWN_TEXT.get(key, ""), label, line[:400], detail[:300]))
        for (what, klass), (n, line, detail) in sorted(self.findings.items()):
            print("FINDING [%s] x%d\n  case: %s\n  %s" % (what, n, line[:600], detail[:1500]))


KNOWN_TEXT = {
    "K1-hash_many-overread": "blake3_hash_many_avx2 / blake3_hash_many_avx512 (unix and windows-gnu assembly): the "
    "4-input and 2-input remainder paths (num_inputs % 8 in 2..7) load the even-numbered inputs of the group with a "
    "full-width ymm/zmm load at block offsets 0x10/0x20/0x30 and then overwrite the upper lanes (vinsertf128 / "
    "vinserti32x4), so they read past inputs[i] + 64*blocks: avx2 4-way inputs 0 and 2 by 16 bytes, avx512 4-way "
    "input 0 by up to 48 bytes (`vmovups zmm9, [r8+rdx-0x30]` ... `-0x10`), both 2-way paths input 0 by 16 bytes "
    "(`vmovups ymm9, [r8+rdx-0x10]`). Harmless for blake3.c, which always passes adjacent inputs "
    "(C_HM_LAYOUT=contig is clean); a real out-of-bounds read for a caller that passes separately allocated inputs. "
    "The C intrinsics builds do not have it.",
    "K2-argjunk-compress_in_place": "blake3_compress_in_place_sse2 / _sse41 (unix assembly) use the full 64-bit rdx "
    "(block_len) without zero-extension (`shl r8,32; add rdx,r8`), unlike compress_xof and the Windows files (movzx). "
    "The psABI leaves bits 8..63 of a uint8_t argument unspecified; gcc/clang callers always zero-extend, so this is "
    "informational.",
    "K3-argjunk-xof_many": "blake3_xof_many_avx512 (unix assembly) depends on bits 8..31 of the block_len/flags "
    "registers in its multi-block path; informational, same reasoning as K2.",
}


def classify_known(kind, impl, fl, args, result, env):
    """Known genuine findings on the unchanged /repo (see KNOWN_TEXT). Returns a key or None."""
    if kind == "khm" and impl in ("avx2", "avx512") and fl in ("asm", "winasm") and result == "FAULT" \
            and env.get("C_GUARD") == "1" and env.get("C_GUARD_SIDE", "hi") == "hi" \
            and env.get("C_HM_LAYOUT", "separate") != "contig" and int(args.split()[0]) % 8 >= 2:
        return "K1-hash_many-overread"
    j = int(env.get("C_ARGJUNK", "0"))
    if j >= 1 and kind == "kcip" and impl in ("sse2", "sse41") and fl == "asm" and "FAULT" not in result:
        return "K2-argjunk-compress_in_place"
    if j >= 2 and kind == "kxm" and impl == "avx512" and fl == "asm" and "FAULT" not in result:
        return "K3-argjunk-xof_many"
    return None


SELFCHK_COMMON = {"none": "done", "rbx": "abi:rbx done", "rbp": "abi:rbp done", "r12": "abi:r12 done",
                  "r15": "abi:r15 done", "df": "abi:df done", "rsp": "abi:rsp done", "mxcsr": "abi:mxcsr done",
                  "stack": "abi:stack done", "abort": "FAULT", "ms_none": "done", "ms_xmm6": "abi:xmm6 done",
                  "ms_xmm15": "abi:xmm15 done", "ms_rsi": "abi:rsi done", "ms_rdi": "abi:rdi done",
                  "ms_stack": "abi:stack done"}
SELFCHK_ENV = {
    "hi": {"write_past": "FAULT", "write_before": "done oob", "read_past": "FAULT", "read_before": "done",
           "write_input": "FAULT"},
    "lo": {"write_past": "done oob", "write_before": "FAULT", "read_past": "done", "read_before": "FAULT",
           "write_input": "FAULT"},
    "noguard": {"write_past": "done oob", "write_before": "done oob", "read_past": "done", "read_before": "done",
                "write_input": "done"}}
BADTOK = re.compile(r"\b(FAULT|ABORT|oob|CRASH|abi:\w+)\b")


def selftest(quick=False, seed=1):
    t0 = time.time()
    rng = random.Random(seed)
    tab = Table()
    # ---- builds -------------------------------------------------------------------------------------------------
    bins = {}
    plan = [("asm", None, "gcc"), ("intr", None, "gcc"), ("tbbseam", None, "gcc"),
            ("asm", "asan", "gcc"), ("intr", "asan", "gcc"), ("tbbseam", "tsan", "gcc"),
            ("intr", None, "clang"), ("intr", "asan", "clang"), ("asm", "asan", "clang"), ("tbbseam", "tsan", "clang")]
    with concurrent.futures.ThreadPoolExecutor(max_workers=NPROC) as ex:
        futs = {p: ex.submit(build, p[0], p[1], p[2]) for p in plan}
    for p in plan:
        b, log = futs[p].result()
        name = "%s/%s/%s" % (p[0], p[1] or "plain", p[2])
        if b is None:
            print("BUILD FAILED %s\n%s" % (name, log[-3000:]))
            tab.add("build " + name, 1, 0, 1)
        else:
            bins[name] = b
            tab.add("build " + name, 1, 0, 0)
    print("[%.0fs] builds done: %s" % (time.time() - t0, ", ".join(sorted(bins))), flush=True)
    rs = os.environ.get("RS_HARNESS")
    if not rs:
        tgt = os.environ.get("CARGO_TARGET_DIR", os.path.join(os.path.dirname(V), "target"))
        e = dict(os.environ, CARGO_NET_OFFLINE="true", CARGO_TARGET_DIR=tgt,
                 RUSTFLAGS="--cfg blake3_team_blake3_verif")
        p = subprocess.run(["cargo", "build", "--offline"], cwd=os.path.join(V, "harness", "rs"), env=e,
                           stdout=subprocess.PIPE, stderr=subprocess.STDOUT, text=True)
        rs = os.path.join(tgt, "debug", "blake3_verif_harness")
        if p.returncode != 0 or not os.path.exists(rs):
            print("Rust harness build failed:\n" + p.stdout[-2000:])
            rs = None
    tab.add("build rust harness", 1, 0, 0 if rs else 1)

    kc = kernel_cases(rng, quick)
    hc = hasher_cases(rng, quick)
    tc = tbb_cases(rng, quick)
    rs_res = {}
    if rs:
        rs_res = run(rs, [r for (_, _, r) in hc])
        # Rust also hashes the tbb inputs (plain updates)
        rs_res.update(run(rs, [p.replace(" CH ", " H ").replace("deriveraw=", "derive=").replace(" f:0:64", " x:0:64")
                               for (_, _, p) in tc]))
    print("[%.0fs] cases: %d kernel, %d hasher, %d tbb; rust oracle answered %d" %
          (time.time() - t0, len(kc), len(hc), len(tc), len(rs_res)), flush=True)

    envs = [("guard-hi", {"C_GUARD": "1", "C_GUARD_SIDE": "hi"}), ("guard-lo", {"C_GUARD": "1", "C_GUARD_SIDE": "lo"}),
            ("guard-hi-contig", {"C_GUARD": "1", "C_GUARD_SIDE": "hi", "C_HM_LAYOUT": "contig"}),
            ("noguard", {"C_GUARD": "0"}),
            ("guard-lo-junk1", {"C_GUARD": "1", "C_GUARD_SIDE": "lo", "C_ARGJUNK": "1"}),
            ("guard-lo-junk2", {"C_GUARD": "1", "C_GUARD_SIDE": "lo", "C_ARGJUNK": "2"})]
    extra_envs = ("guard-hi-contig", "noguard", "guard-lo-junk1", "guard-lo-junk2")
    portable_ref = {}   # (kind, argidx) -> result, from the first build/env that answers; all must agree

    for bname in sorted(bins):
        binp = bins[bname]
        variant, san, cc = bname.split("/")
        native = "c" if variant == "intr" else "asm"
        for ename, env in envs:
            if ename in extra_envs and (san != "plain" or cc != "gcc"):
                continue   # the extra environments only on the plain gcc builds
            kernels_only = ename in extra_envs and ename != "noguard"
            label = "%s %s" % (bname, ename)
            errs = []
            # ---- kernels ----
            res = run(binp, [c[5] for c in kc], env=env, stderr=errs)
            by_kind = {}
            for cid, kind, ai, impl, fl, line in kc:
                r = res.get(cid, "MISSING")
                st = by_kind.setdefault(kind, [0, 0, 0, 0])
                st[0] += 1
                if r.startswith("SKIP"):
                    st[1] += 1
                    continue
                bad = None
                if BADTOK.search(r) or r == "MISSING":
                    bad = "result: " + r[:200]
                else:
                    if impl == "portable":
                        ref = portable_ref.setdefault((kind, ai), r)
                    else:
                        ref = res.get("%s.%d.portable.c" % (kind, ai), "MISSING")
                    if r != ref:
                        bad = "differs from portable: got %s want %s" % (r[:150], ref[:150])
                if bad:
                    args = line.split(" ", 4)[4]
                    key = classify_known(kind, impl, fl, args, r, env)
                    if key:
                        st[3] += 1
                        tab.known_finding(key, label, line.split(" ", 1)[1], bad)
                    else:
                        st[2] += 1
                        tab.finding(label + " " + kind, line.split(" ", 1)[1], bad,
                                    "%s %s %s" % (impl, fl, bad.split(":")[0]))
            for kind in ("kcip", "kxof", "khm", "kxm"):
                st = by_kind.get(kind, [0, 0, 0, 0])
                tab.add("%s %s vs portable" % (label, kind), st[0], st[1], st[2], st[3])
            if kernels_only:
                print("[%.0fs] %s done" % (time.time() - t0, label), flush=True)
                continue
            # ---- hasher vs Rust ----
            res = run(binp, [c for (_, c, _) in hc], env=env, stderr=errs)
            st = [0, 0, 0]
            for cid, cl, rl in hc:
                r = res.get(cid, "MISSING")
                st[0] += 1
                if r.startswith("SKIP"):
                    st[1] += 1
                    continue
                want = rs_res.get(cid, "MISSING")
                bad = None
                if BADTOK.search(r) or "diff" in r.split():
                    bad = "result: " + r[:300]
                elif want.startswith("SKIP"):
                    st[1] += 1
                    continue
                elif strip_c_only(r.split()) != want.split():
                    bad = "differs from Rust: got %s want %s" % (r[:200], want[:200])
                if bad:
                    st[2] += 1
                    tab.finding(label + " CH", cl.split(" ", 1)[1], bad)
            tab.add("%s CH vs Rust crate" % label, *st)
            # ---- tbb seam ----
            if variant == "tbbseam":
                r1 = run(binp, [a for (_, a, _) in tc], env=env, stderr=errs)
                r2 = run(binp, [p for (_, _, p) in tc], env=env, stderr=errs)
                st = [0, 0, 0]
                for cid, a, p in tc:
                    x, y, z = r1.get(cid, "MISSING"), r2.get(cid, "MISSING"), rs_res.get(cid, "MISSING")
                    st[0] += 1
                    if x.startswith("SKIP"):
                        st[1] += 1
                        continue
                    if BADTOK.search(x) or x != y or (rs and x != z):
                        st[2] += 1
                        tab.finding(label + " tbbseam", a.split(" ", 1)[1],
                                    "ut: %s | u: %s | rust: %s" % (x[:140], y[:140], z[:140]))
                tab.add("%s update_tbb vs update vs Rust" % label, *st)
            else:
                r1 = run(binp, [a for (_, a, _) in tc[:5]], env=env)
                nskip = sum(1 for v in r1.values() if v.startswith("SKIP"))
                tab.add("%s ut prints SKIP" % label, len(r1), nskip, len(r1) - nskip)
            # ---- threads ----
            thr = thr_cases(rng, kc, hc, quick, native)
            lines, seq = [], []
            for tid, subs in thr:
                lines.append("%s THR %d %s" % (tid, len(subs), "|".join(subs)))
                for j, s in enumerate(subs):
                    seq.append("%s.%d %s" % (tid, j, s))
            rt = run(binp, lines, env=env, stderr=errs, shards=4)
            rq = run(binp, seq, env=env, stderr=errs)
            st = [0, 0, 0]
            for (tid, subs), line in zip(thr, lines):
                got = rt.get(tid, "MISSING")
                want = " | ".join(rq.get("%s.%d" % (tid, j), "MISSING") for j in range(len(subs)))
                # normalise the spacing of empty sub-results
                st[0] += 1
                if BADTOK.search(got) or got.split() != want.split():
                    st[2] += 1
                    tab.finding(label + " THR", line.split(" ", 1)[1], "got %s want %s" % (got[:200], want[:200]))
            tab.add("%s THR vs sequential" % label, *st)
            # ---- the instrumentation itself: deliberately broken kernels must be reported ----
            exp = dict(SELFCHK_COMMON)
            exp.update(SELFCHK_ENV["noguard" if env.get("C_GUARD") != "1" else env.get("C_GUARD_SIDE", "hi")])
            rc = run(binp, ["%s selfchk %s" % (k, k) for k in exp], env=env, shards=1)
            nb = 0
            for k, want in sorted(exp.items()):
                if rc.get(k) != want:
                    nb += 1
                    tab.finding(label + " selfchk", "selfchk " + k, "got %r want %r" % (rc.get(k), want))
            tab.add("%s selfchk (instrumentation live)" % label, len(exp), 0, nb)
            # ---- detection ----
            rd = run(binp, ["d DET"], env=env)
            d = rd.get("d", "").split()
            ok = len(d) == 3 and d[0] == d[1]
            tab.add("%s DET lib==builtin (%s)" % (label, " ".join(d)), 1, 0, 0 if ok else 1)
            # ---- sanitizer reports ----
            rep = [(ids, t) for ids, t in errs if re.search(r"runtime error|Sanitizer|WARNING: ThreadSanitizer", t)]
            other = [(ids, t) for ids, t in errs if (ids, t) not in rep]
            tab.add("%s sanitizer/stderr reports" % label, len(errs), 0, len(rep) + len(other))
            for ids, t in (rep + other)[:5]:
                tab.finding(label + " stderr", "shard with ids %s..." % ",".join(ids[:3]), t[:1500])
            print("[%.0fs] %s done" % (time.time() - t0, label), flush=True)
    tab.show()
    print("selftest wall time %.0fs" % (time.time() - t0))
    return 0 if tab.nbad() == 0 else 1


def main(argv):
    if len(argv) >= 2 and argv[1] == "selftest":
        return selftest(quick="--quick" in argv)
    if len(argv) >= 3 and argv[1] in ("build", "run"):
        san = argv[3] if len(argv) > 3 and argv[3] in ("asan", "tsan") else None
        b, log = build(argv[2], san)
        if b is None:
            print(log)
            return 1
        if argv[1] == "build":
            print(b)
            return 0
        lines = sys.stdin.read().split("\n")
        res = run(b, lines)
        for l in lines:
            if l.strip():
                cid = l.split(" ", 1)[0]
                print(cid, res.get(cid, "MISSING"))
        return 0
    print(__doc__)
    return 2


if __name__ == "__main__":
    sys.exit(main(sys.argv))
