"""C02: incremental hashing is independent of input splitting; finalize is a pure query."""
from props.common import Rng, bspec, modes, number, CHUNK
from props.hist import PLATFORMS, history

RULE = ("random histories over {update(n) / Write::write(n) (chosen at random per call), clone, finalize, finalize_xof(n), count, Write::write, update_reader} with "
        "update sizes from a boundary mixture (0; 1..64; around 64; around 1024; exact 2^k chunks; degree multiples "
        "after odd prefixes; up to 40 chunks), all three modes, every forced SIMD level; lazy-merge boundary family (a "
        "call ending exactly on a 2^k-chunk boundary, then calls of at most 64 bytes through update / Write::write / "
        "update_reader with queries in between); exhaustive 2-splits of short "
        "lengths. Non-trivial = distinct history with at least two updates and more than one chunk absorbed.")
MODELLED = ["update_rayon / update_mmap*: same model function as update (their own content is C08 / C11)",
            "derived Clone: copying the model record"]
ASSUMPTIONS = ["total bytes per instance below 2^64"]


def gen_cases(seed, tier):
    rng = Rng(seed)
    lines = []
    ms = modes(rng)
    nh = 90 if tier == "thorough" else 14
    for plat in PLATFORMS:
        for k in range(nh):
            m = "hash" if k % 3 == 0 else rng.choice(ms)
            ops = history(rng, plat, rng.range(3, 40 if tier == "thorough" else 24))
            lines.append(f"H {m} {plat} " + " ".join(ops))
        # Write::write and update_reader as absorbing calls in the same histories
        for k in range(4):
            n1, n2, n3 = rng.range(0, 3000), rng.range(0, 70000), rng.range(0, 5000)
            lines.append(f"H {rng.choice(ms)} {plat} w:0:{bspec(rng, n1)} c:0 ur:0:{bspec(rng, n2)}:d{rng.range(1, 2000)},d65536 "
                         f"c:0 f:0 u:0:{bspec(rng, n3)} c:0 f:0 x:0:70")
    # lazy-merge boundary: an absorbing call that ends exactly on a power-of-two subtree boundary (the CV stack then
    # holds an unmerged pair), followed by tiny absorbing calls through every adapter and a query before the chunk completes
    for pi, plat in enumerate(PLATFORMS):
        for k in range(1, 7):
            big = CHUNK << k
            for j, small in enumerate((["w", "u", "ur"] * 2)[(pi + k) % 3:][:2]):
                n1, n2 = rng.range(1, 64), rng.range(1, 64 - 1)
                pre = [] if (k + j) % 2 else [f"u:0:{bspec(rng, big)}"]      # one or two aligned subtrees before
                tiny = (lambda n: f"ur:0:{bspec(rng, n)}:d{n}") if small == "ur" else (lambda n: f"{small}:0:{bspec(rng, n)}")
                lines.append(f"H {rng.choice(ms)} {plat} " + " ".join(pre + [f"{'w' if j else 'u'}:0:{bspec(rng, big)}", tiny(n1), "c:0",
                             "f:0", "x:0:70", tiny(min(n2, 64 - n1) or 1), "f:0", f"u:0:{bspec(rng, 1500)}", "c:0", "f:0"]))
    # exhaustive 2-splits on short lengths (hash mode, one platform each)
    lens = list(range(0, 131, 1 if tier == "thorough" else 3)) + list(range(1020, 1031)) + list(range(2044, 2053))
    for li, total in enumerate(lens):
        plat = PLATFORMS[li % len(PLATFORMS)]
        cuts = range(0, total + 1) if total <= 130 else list(range(0, total + 1, 61)) + [total - 1, total - 64, 1024, 1023, 1025]
        ops = []
        ninst = 0
        for c in cuts:
            if c < 0 or c > total:
                continue
            ops.append("n")
            ninst += 1
            ops += [f"u:{ninst}:paint/0/{c}", f"u:{ninst}:paint/{c % 251}/{total - c}", f"f:{ninst}"]
            if len(ops) > 90:
                lines.append(f"H hash {plat} " + " ".join(ops))
                ops, ninst = [], 0
        if ops:
            lines.append(f"H hash {plat} " + " ".join(ops))
    return number(lines)


def nontrivial(rest, model_line):
    import re
    sizes = [int(x) for x in re.findall(r"\b(?:u|w|ur):\d+:\w+/\d+/(\d+)", rest)]
    return len(sizes) >= 2 and sum(sizes) > 1024


def correspondence(ctx):
    drv = ctx.need_model()
    cases = gen_cases(ctx.seed, ctx.tier)
    builds = [("default", "debug")]
    if ctx.tier == "thorough":
        builds += [("default", "release"), ("prefer_intrinsics", "debug"), ("pure", "debug")]
    for flavour, profile in builds:
        b = ctx.need_harness(flavour, profile)
        ctx.correspond("histories", cases, drv, b, profile=profile, build=flavour, nontrivial=nontrivial)


def classify(f):
    return None
