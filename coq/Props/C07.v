(* C07: native code stays inside its buffers (the part a model can carry).
   (1) Every array index, slice bound, split_at, ArrayVec::push and capacity-dependent write of the
       modelled glue code is an `assert!` of the model, so the `Ok` of the C01 / C02 / C03 / C09
       theorems is the statement "no index is out of range, for any input".
   (2) Footprints: the kernel models produce exactly 32 bytes per hashed input, exactly 64 bytes per
       extended-output block, and a fill exactly the requested bytes.
   Statements only; proofs in Proofs/{C01P,C04P,XofP}.v.  What the native loads and stores really
   touch, and the assembly's register discipline, is checked by the guard-page / sentinel harness
   (tools/props/C07.py), not proved: see DESIGN.md. *)
From Coq Require Import NArith List Bool.
From V Require Import Base.Res Base.Word Spec.Tree Spec.Blake3 Model.Portable Model.Platform Model.RsChunk Model.RsWide
  Model.RsXof Proofs.C01P Proofs.XofP Proofs.C04P.
Import ListNotations.
Open Scope N_scope.

Theorem C07_one_shot_indices_in_bounds : forall p, PlatformOK p -> forall input, len input < 2 ^ 64 ->
  is_ok (rs_hash p input) = true.
Proof. intros p H input Hl. rewrite (rs_hash_spec p H input Hl). reflexivity. Qed.

Theorem C07_hash_many_footprint : forall inputs key ctr incr fl fs fe cap outs,
  hash_many inputs key ctr incr fl fs fe cap = Ok outs ->
  length outs = length inputs /\ N.of_nat (length inputs) <= cap.
Proof. exact hash_many_footprint. Qed.

Theorem C07_xof_many_footprint : forall cv block bl fl, length cv = 8%nat -> length block = 64%nat -> forall n ctr bs,
  xof_many_loop compress_xof cv block bl ctr fl n = Ok bs -> length bs = (64 * n)%nat.
Proof. exact xof_many_footprint. Qed.

Theorem C07_fill_footprint : forall p, PlatformOK p -> forall r o pos n,
  Rd r o pos -> pos + n <= 2 ^ 64 - 1 ->
  exists r' bs, reader_fill p r n = Ok (r', bs) /\ length bs = N.to_nat n.
Proof. exact reader_fill_footprint. Qed.

Example C07_nonvacuous :
  exists outs, hash_many [repeat 1 64; repeat 2 64; repeat 3 64] Spec.Compress.IV 0 true 0 1 2 3 = Ok outs /\ length outs = 3%nat.
Proof. vm_compute. eexists. split; reflexivity. Qed.

Print Assumptions C07_one_shot_indices_in_bounds.
Print Assumptions C07_hash_many_footprint.
Print Assumptions C07_xof_many_footprint.
Print Assumptions C07_fill_footprint.
