(* C06, part 1: the integer formulas and constants of the C source (gen/GenFormulas.v,
   gen/GenConsts.v, names c_...) mean what the tree specification says, and agree with the
   Rust crate's counterparts. *)
From V Require Import Proofs.ListP.
From V Require Import Base.Res Base.Word Base.MachInt gen.GenConsts gen.GenFormulas Spec.Compress Spec.Tree
  Proofs.TreeP Proofs.FormulasP Proofs.StackArithP.
Open Scope N_scope.

Lemma log2_lt_64 n : n < 2 ^ 64 -> N.log2 n < 64.
Proof.
  intros H. destruct (N.eq_dec n 0) as [->|Hn]; [reflexivity|].
  apply N.log2_lt_pow2; lia.
Qed.

Lemma xor63 l : l <= 63 -> N.lxor 63 (63 - l) = l.
Proof.
  intros H.
  assert (Hs : forallb (fun l => N.lxor 63 (63 - l) =? l) (map N.of_nat (seq 0 64)) = true) by (vm_compute; reflexivity).
  rewrite forallb_forall in Hs. specialize (Hs l). apply N.eqb_eq. apply Hs.
  apply in_map_iff. exists (N.to_nat l). split; [lia|]. apply in_seq. lia.
Qed.

Lemma c_highest_one_spec y : 0 < y -> y < 2 ^ 64 -> c_highest_one y = Ok (N.log2 y).
Proof.
  intros H0 H64. pose proof (log2_lt_64 y H64) as Hl.
  unfold c_highest_one, mb, mu, mi_clz, mi_cast, mi_xor. cbn [bind].
  destruct y as [|py]; [lia|]. cbn [bind].
  rewrite N.land_ones. rewrite N.mod_small by (change (2 ^ 32) with 4294967296; lia).
  replace (64 - 1 - N.log2 (N.pos py)) with (63 - N.log2 (N.pos py)) by lia.
  rewrite xor63 by lia. reflexivity.
Qed.

(* round_down_to_power_of_2 (blake3_impl.h) on all of 1 <= n < 2^64 *)
Theorem c_round_down_spec n : 1 <= n -> n < 2 ^ 64 -> c_round_down_to_power_of_2 n = Ok (2 ^ N.log2 n).
Proof.
  intros H1 H64. unfold c_round_down_to_power_of_2, mb, mu, mi_or. cbn [bind].
  assert (Hlog : N.log2 (N.lor n 1) = N.log2 n).
  { rewrite N.log2_lor. change (N.log2 1) with 0. lia. }
  assert (Hlt : N.lor n 1 < 2 ^ 64).
  { destruct (N.eq_dec (N.lor n 1) 0) as [->|Hne]; [reflexivity|].
    apply N.log2_lt_pow2; [lia|]. rewrite Hlog. apply log2_lt_64. exact H64. }
  rewrite c_highest_one_spec; [|destruct (N.lor n 1) eqn:E; [|lia]; apply N.lor_eq_0_iff in E; lia|exact Hlt].
  cbn [bind]. rewrite Hlog. unfold mi_shl. pose proof (log2_lt_64 n H64) as Hl.
  replace (N.log2 n <? 64) with true by lia.
  rewrite N.shiftl_1_l, N.land_ones. rewrite N.mod_small; [reflexivity|].
  pose proof (N.log2_spec n ltac:(lia)) as [L1 L2]. lia.
Qed.

Theorem c_round_down_is_rs n : 1 <= n -> n < 2 ^ 64 ->
  c_round_down_to_power_of_2 n = rs_largest_power_of_two_leq n.
Proof. intros. rewrite c_round_down_spec, rs_largest_power_of_two_leq_spec by assumption. reflexivity. Qed.

(* left_subtree_len (blake3.c) on all of u64 above CHUNK_LEN *)
Theorem c_left_subtree_len_spec n : 1024 < n -> n < 2 ^ 64 -> c_left_subtree_len n = Ok (left_len n).
Proof.
  intros Hlo Hhi. unfold c_left_subtree_len, mb, mu, mi_sub, mi_div. cbn [bind].
  replace (1 <=? n) with true by lia. cbn [bind]. change c_CHUNK_LEN with 1024.
  change (1024 =? 0) with false. cbn iota. cbn [bind].
  set (q := (n - 1) / 1024).
  assert (Hq : 1 <= q) by (unfold q; lia).
  assert (Hq64 : q < 2 ^ 64) by (unfold q; rewrite two64 in *; lia).
  rewrite c_round_down_spec by assumption. cbn [bind]. unfold mi_mul, fits.
  pose proof (N.log2_spec q ltac:(lia)) as [L1 L2].
  replace (2 ^ N.log2 q * 1024 <? 2 ^ 64) with true by (unfold q in *; rewrite two64 in *; lia).
  unfold left_len. fold q. f_equal. lia.
Qed.

Theorem c_left_subtree_len_is_rs n : 1024 < n -> n < 2 ^ 64 -> c_left_subtree_len n = rs_left_subtree_len n.
Proof. intros. rewrite c_left_subtree_len_spec, rs_left_subtree_len_spec by assumption. reflexivity. Qed.

(* ---- constants ------------------------------------------------------------------------ *)
Theorem c_consts :
  c_IV = IV /\ c_IV = rs_IV /\ c_MSG_SCHEDULE = rs_MSG_SCHEDULE /\
  c_KEY_LEN = 32 /\ c_OUT_LEN = 32 /\ c_BLOCK_LEN = 64 /\ c_CHUNK_LEN = 1024 /\
  (c_KEY_LEN, c_OUT_LEN, c_BLOCK_LEN, c_CHUNK_LEN) = (rs_KEY_LEN, rs_OUT_LEN, rs_BLOCK_LEN, rs_CHUNK_LEN) /\
  (c_flag_CHUNK_START, c_flag_CHUNK_END, c_flag_PARENT, c_flag_ROOT, c_flag_KEYED_HASH, c_flag_DERIVE_KEY_CONTEXT,
   c_flag_DERIVE_KEY_MATERIAL) = (CHUNK_START, CHUNK_END, PARENT, ROOT, KEYED_HASH, DERIVE_KEY_CONTEXT, DERIVE_KEY_MATERIAL) /\
  (c_flag_CHUNK_START, c_flag_CHUNK_END, c_flag_PARENT, c_flag_ROOT, c_flag_KEYED_HASH, c_flag_DERIVE_KEY_CONTEXT,
   c_flag_DERIVE_KEY_MATERIAL) = (rs_flag_CHUNK_START, rs_flag_CHUNK_END, rs_flag_PARENT, rs_flag_ROOT, rs_flag_KEYED_HASH,
   rs_flag_DERIVE_KEY_CONTEXT, rs_flag_DERIVE_KEY_MATERIAL) /\
  c_MAX_DEPTH = rs_MAX_DEPTH /\ c_cv_stack_bytes / c_OUT_LEN = rs_cv_stack_cap /\
  c_MAX_SIMD_DEGREE = 16 /\ c_MAX_SIMD_DEGREE_OR_2 = 16.
Proof. repeat split; reflexivity. Qed.

(* ---- the small formulas of blake3.c ------------------------------------------------------ *)
Lemma popcount_pos_le_size p : popcount_pos p <= N.pos (Pos.size p).
Proof. induction p as [p IH|p IH|]; cbn [popcount_pos Pos.size]; lia. Qed.

Lemma popcount_le_64 x : x < 2 ^ 64 -> popcount x <= 64.
Proof.
  intros H. destruct x as [|p]; [cbn; lia|].
  pose proof (popcount_pos_le_size p) as Hp. cbn [popcount].
  pose proof (N.size_log2 (N.pos p) ltac:(lia)) as Hs. cbn [N.size] in Hs.
  pose proof (log2_lt_64 (N.pos p) H). lia.
Qed.

Lemma c_popcnt_spec x : x < 2 ^ 64 -> c_popcnt x = Ok (popcount x).
Proof.
  intros H. unfold c_popcnt, mu, mi_popcount, mi_cast. cbn [bind]. rewrite N.land_ones.
  pose proof (popcount_le_64 x H). rewrite N.mod_small by (change (2 ^ 32) with 4294967296; lia). reflexivity.
Qed.

Lemma c_chunk_state_len_spec blocks buf_len : blocks < 256 -> buf_len < 256 ->
  c_chunk_state_len blocks buf_len = Ok (64 * blocks + buf_len).
Proof.
  intros H1 H2. unfold c_chunk_state_len, mb, mu, mi_cast, mi_mul, mi_add, fits. cbn [bind].
  rewrite !N.land_ones. rewrite !N.mod_small by (rewrite two64; lia). change c_BLOCK_LEN with 64.
  replace (64 * blocks <? 2 ^ 64) with true by (rewrite two64; lia). cbn [bind].
  replace (64 * blocks + buf_len <? 2 ^ 64) with true by (rewrite two64; lia). reflexivity.
Qed.

Lemma c_orb_counter_spec seek : c_orb_counter seek = Ok (seek / 64).
Proof. reflexivity. Qed.
Lemma c_orb_offset_spec seek : c_orb_offset seek = Ok (seek mod 64).
Proof. reflexivity. Qed.
Lemma c_orb_blocks_spec n : c_orb_blocks n = Ok (n / 64).
Proof. reflexivity. Qed.
Lemma c_orb_available_spec off : off <= 64 -> c_orb_available off = Ok (64 - off).
Proof.
  intros H. unfold c_orb_available, mb, mi_sub. cbn [bind]. replace (off <=? 64) with true by lia. reflexivity.
Qed.

(* `out_len & -64` in size_t arithmetic: the whole blocks *)
Lemma c_orb_whole_spec n : n < 2 ^ 64 -> c_orb_whole n = Ok (n / 64 * 64).
Proof.
  intros H. unfold c_orb_whole, mb, mi_and. cbn [bind]. f_equal.
  change 18446744073709551552 with (N.lnot (N.ones 6) 64).
  rewrite <- N.ldiff_land_low by (apply log2_lt_64; exact H).
  rewrite N.ldiff_ones_r, N.shiftl_mul_pow2, N.shiftr_div_pow2. reflexivity.
Qed.

Lemma c_count_so_far_spec ctr : ctr * 1024 < 2 ^ 64 -> c_count_so_far ctr = Ok (ctr * 1024).
Proof.
  intros H. unfold c_count_so_far, mb, mi_mul, fits. cbn [bind]. change c_CHUNK_LEN with 1024.
  replace (ctr * 1024 <? 2 ^ 64) with true by lia. reflexivity.
Qed.

Lemma c_subtree_chunks_spec l : c_subtree_chunks l = Ok (l / 1024).
Proof. reflexivity. Qed.

Lemma c_right_cv_counter_spec ctr sc : ctr + sc / 2 < 2 ^ 64 -> c_right_cv_counter ctr sc = Ok (ctr + sc / 2).
Proof.
  intros H. unfold c_right_cv_counter, mb, mi_add, mi_div, fits. cbn [bind].
  change (2 =? 0) with false. cbn iota. cbn [bind]. replace (ctr + sc / 2 <? 2 ^ 64) with true by lia. reflexivity.
Qed.

(* the shrink condition: the C and the Rust source have the same formula *)
Lemma c_shrink_cond_is_rs l c : c_shrink_cond l c = rs_shrink_cond l c.
Proof. reflexivity. Qed.
