(* The reference implementation's compression function (model of
   reference_impl.rs::{g, round, permute, compress}, with the repository's
   ref_IV and ref_MSG_PERMUTATION) computes the specification's compression
   function; plus the word-range facts needed because the reference
   implementation keeps chaining values as u32 words where the specification
   passes them through bytes. *)
From V Require Import Proofs.ListP.
From V Require Import Base.Res Base.Word Base.MachInt gen.GenConsts
  Spec.Compress Spec.Tree Spec.Blake3 Model.RefImpl Proofs.PortableP.
Open Scope N_scope.

(* ---- constants ---------------------------------------------------------------------- *)
Lemma ref_IV_is_spec : ref_IV = IV.
Proof. reflexivity. Qed.

Lemma ref_MSG_PERMUTATION_is_spec : ref_MSG_PERMUTATION = MSG_PERMUTATION.
Proof. reflexivity. Qed.

Lemma ref_flags_are_spec :
  ref_flag_CHUNK_START = CHUNK_START /\ ref_flag_CHUNK_END = CHUNK_END /\ ref_flag_PARENT = PARENT /\
  ref_flag_ROOT = ROOT /\ ref_flag_KEYED_HASH = KEYED_HASH /\
  ref_flag_DERIVE_KEY_CONTEXT = DERIVE_KEY_CONTEXT /\ ref_flag_DERIVE_KEY_MATERIAL = DERIVE_KEY_MATERIAL.
Proof. repeat split; reflexivity. Qed.

Lemma ref_lens : ref_OUT_LEN = 32 /\ ref_KEY_LEN = 32 /\ ref_BLOCK_LEN = 64 /\ ref_CHUNK_LEN = 1024 /\ ref_stack_len = 54.
Proof. repeat split; reflexivity. Qed.

(* ---- round, permute ----------------------------------------------------------------- *)
Lemma ref_round_is_spec s m : length s = 16%nat -> length m = 16%nat ->
  ref_round s m = Compress.round s m.
Proof.
  intros Hs Hm.
  destruct (length16_inv s Hs) as (s0&s1&s2&s3&s4&s5&s6&s7&s8&s9&s10&s11&s12&s13&s14&s15&->).
  destruct (length16_inv m Hm) as (m0&m1&m2&m3&m4&m5&m6&m7&m8&m9&m10&m11&m12&m13&m14&m15&->).
  reflexivity.
Qed.

Lemma ref_permute_is_spec m : length m = 16%nat -> ref_permute m = Ok (Compress.permute m).
Proof.
  intros Hm.
  destruct (length16_inv m Hm) as (m0&m1&m2&m3&m4&m5&m6&m7&m8&m9&m10&m11&m12&m13&m14&m15&->).
  reflexivity.
Qed.

Lemma length8_inv {A} (l : list A) : length l = 8%nat ->
  exists a0 a1 a2 a3 a4 a5 a6 a7, l = [a0;a1;a2;a3;a4;a5;a6;a7].
Proof.
  intros H. do 8 (destruct l as [|? l]; [discriminate|]). destruct l; [|discriminate].
  repeat eexists.
Qed.

Lemma ref_feed_forward_is_spec s cv : length s = 16%nat -> length cv = 8%nat ->
  ref_feed_forward s cv = xor_lists (firstn 8 s) (skipn 8 s) ++ xor_lists (skipn 8 s) cv.
Proof.
  intros Hs Hcv.
  destruct (length16_inv s Hs) as (s0&s1&s2&s3&s4&s5&s6&s7&s8&s9&s10&s11&s12&s13&s14&s15&->).
  destruct (length8_inv cv Hcv) as (c0&c1&c2&c3&c4&c5&c6&c7&->).
  reflexivity.
Qed.

(* ---- compress --------------------------------------------------------------------------- *)
Theorem ref_compress_words_is_spec cv bw block ctr bl fl :
  length cv = 8%nat -> length bw = 16%nat -> words_of_bytes block = bw ->
  ref_compress cv bw ctr bl fl = Ok (compress cv block bl ctr fl).
Proof.
  intros Hcv Hbw Hblock. unfold ref_compress, compress. cbv zeta. rewrite Hblock.
  set (st := [idx cv 0; idx cv 1; idx cv 2; idx cv 3; idx cv 4; idx cv 5; idx cv 6; idx cv 7;
              idx ref_IV 0; idx ref_IV 1; idx ref_IV 2; idx ref_IV 3;
              N.land ctr (N.ones 32); N.land (N.shiftr ctr 32) (N.ones 32); bl; fl]).
  assert (Est : st = cv ++ firstn 4 IV ++ [counter_lo ctr; counter_hi ctr; bl; fl]).
  { destruct (length8_inv cv Hcv) as (c0&c1&c2&c3&c4&c5&c6&c7&->). reflexivity. }
  assert (Hst : length st = 16%nat) by reflexivity.
  rewrite <- Est. clearbody st.
  cbn [rounds].
  pose proof (permute_length bw) as P1.
  pose proof (permute_length (permute bw)) as P2.
  pose proof (permute_length (permute (permute bw))) as P3.
  pose proof (permute_length (permute (permute (permute bw)))) as P4.
  pose proof (permute_length (permute (permute (permute (permute bw))))) as P5.
  pose proof (permute_length (permute (permute (permute (permute (permute bw)))))) as P6.
  rewrite (ref_round_is_spec st bw Hst Hbw).
  set (s1 := Compress.round st bw). assert (H1 : length s1 = 16%nat) by (apply round_length; assumption).
  rewrite (ref_permute_is_spec bw Hbw). cbn [bind].
  rewrite (ref_round_is_spec s1 _ H1 P1).
  set (s2 := Compress.round s1 _). assert (H2 : length s2 = 16%nat) by (apply round_length; assumption).
  rewrite (ref_permute_is_spec _ P1). cbn [bind].
  rewrite (ref_round_is_spec s2 _ H2 P2).
  set (s3 := Compress.round s2 _). assert (H3 : length s3 = 16%nat) by (apply round_length; assumption).
  rewrite (ref_permute_is_spec _ P2). cbn [bind].
  rewrite (ref_round_is_spec s3 _ H3 P3).
  set (s4 := Compress.round s3 _). assert (H4 : length s4 = 16%nat) by (apply round_length; assumption).
  rewrite (ref_permute_is_spec _ P3). cbn [bind].
  rewrite (ref_round_is_spec s4 _ H4 P4).
  set (s5 := Compress.round s4 _). assert (H5 : length s5 = 16%nat) by (apply round_length; assumption).
  rewrite (ref_permute_is_spec _ P4). cbn [bind].
  rewrite (ref_round_is_spec s5 _ H5 P5).
  set (s6 := Compress.round s5 _). assert (H6 : length s6 = 16%nat) by (apply round_length; assumption).
  rewrite (ref_permute_is_spec _ P5). cbn [bind].
  rewrite (ref_round_is_spec s6 _ H6 P6).
  set (s7 := Compress.round s6 _). assert (H7 : length s7 = 16%nat) by (apply round_length; assumption).
  rewrite (ref_feed_forward_is_spec s7 cv H7 Hcv). reflexivity.
Qed.

(* the block given as 64 bytes, converted exactly as the reference implementation does *)
Theorem ref_compress_is_spec cv block ctr bl fl :
  length cv = 8%nat -> length block = 64%nat ->
  (bw <- ref_words_from_le_bytes block 16 ;; ref_compress cv bw ctr bl fl)
  = Ok (compress cv block bl ctr fl).
Proof.
  intros Hcv Hb.
  assert (Hw : length (words_of_bytes block) = 16%nat) by (apply words_of_bytes_length; rewrite Hb; reflexivity).
  unfold ref_words_from_le_bytes, rlen. rewrite Hb. cbn [check bind N.eqb].
  change (N.of_nat 64 =? 4 * N.of_nat 16) with true. cbn [check bind].
  rewrite (firstn_all2 (n := 16)) by lia. rewrite Hw. cbn [Nat.sub repeat]. rewrite app_nil_r.
  apply ref_compress_words_is_spec; [exact Hcv|exact Hw|reflexivity].
Qed.

Lemma ref_words_from_le_bytes_ok bytes (n : nat) : length bytes = (4 * n)%nat ->
  ref_words_from_le_bytes bytes n = Ok (words_of_bytes bytes).
Proof.
  intros H. pose proof (words_of_bytes_length n bytes H) as Hw.
  unfold ref_words_from_le_bytes, rlen. rewrite H.
  replace (N.of_nat (4 * n) =? 4 * N.of_nat n) with true by lia. cbn [check bind].
  rewrite firstn_all2 by lia. rewrite Hw, Nat.sub_diag. cbn [repeat]. rewrite app_nil_r. reflexivity.
Qed.

(* ---- word ranges ---------------------------------------------------------------------------- *)
Definition W (x : N) : Prop := x < 4294967296.

Lemma W_pow x : W x <-> x < 2 ^ 32.
Proof. unfold W. change (2 ^ 32) with 4294967296. reflexivity. Qed.

Lemma W_log2 x : W x <-> (x = 0 \/ N.log2 x < 32).
Proof.
  rewrite W_pow. destruct (N.eq_dec x 0) as [->|Hx].
  - split; [auto|]. intros _. reflexivity.
  - rewrite <- N.log2_lt_pow2 by lia. split; [auto|]. intros [H|H]; [contradiction|exact H].
Qed.

Lemma W_add32 a b : W (add32 a b).
Proof. apply w32_lt. Qed.

Lemma W_w32 a : W (w32 a).
Proof. apply w32_lt. Qed.

Lemma W_xor32 a b : W a -> W b -> W (xor32 a b).
Proof.
  intros Ha Hb. unfold xor32.
  destruct (N.eq_dec a 0) as [->|Ea]; [rewrite N.lxor_0_l; exact Hb|].
  destruct (N.eq_dec b 0) as [->|Eb]; [rewrite N.lxor_0_r; exact Ha|].
  apply W_log2. destruct (N.eq_dec (N.lxor a b) 0) as [E|E]; [left; exact E|right].
  pose proof (N.log2_lxor a b) as H.
  apply W_log2 in Ha. apply W_log2 in Hb.
  destruct Ha as [Ha|Ha]; [contradiction|]. destruct Hb as [Hb|Hb]; [contradiction|]. lia.
Qed.

Lemma W_lor a b : W a -> W b -> W (N.lor a b).
Proof.
  intros Ha Hb.
  destruct (N.eq_dec a 0) as [->|Ea]; [rewrite N.lor_0_l; exact Hb|].
  destruct (N.eq_dec b 0) as [->|Eb]; [rewrite N.lor_0_r; exact Ha|].
  apply W_log2. right. rewrite N.log2_lor.
  apply W_log2 in Ha. apply W_log2 in Hb.
  destruct Ha as [Ha|Ha]; [contradiction|]. destruct Hb as [Hb|Hb]; [contradiction|]. lia.
Qed.

Lemma W_shiftr a r : W a -> W (N.shiftr a r).
Proof.
  intros Ha. unfold W in *. rewrite N.shiftr_div_pow2.
  assert (Hp : 0 < 2 ^ r) by (apply N.neq_0_lt_0, N.pow_nonzero; discriminate).
  assert (a / 2 ^ r <= a) by (apply N.div_le_upper_bound; nia). lia.
Qed.

Lemma W_rotr32 x r : W x -> W (rotr32 x r).
Proof. intros H. unfold rotr32. apply W_lor; [apply W_shiftr; exact H|apply W_w32]. Qed.

Lemma g_words a b c d mx my : W a -> W b -> W c -> W d ->
  W (fst (fst (fst (Compress.g a b c d mx my)))) /\ W (snd (fst (fst (Compress.g a b c d mx my)))) /\
  W (snd (fst (Compress.g a b c d mx my))) /\ W (snd (Compress.g a b c d mx my)).
Proof.
  intros Ha Hb Hc Hd. unfold Compress.g. cbv zeta. cbn [fst snd].
  repeat split; repeat first [apply W_add32 | apply W_rotr32 | apply W_xor32 | assumption].
Qed.

Lemma round_words s m : length s = 16%nat -> length m = 16%nat ->
  Forall W s -> Forall W (Compress.round s m).
Proof.
  intros Hs Hm HW.
  destruct (length16_inv s Hs) as (s0&s1&s2&s3&s4&s5&s6&s7&s8&s9&s10&s11&s12&s13&s14&s15&->).
  destruct (length16_inv m Hm) as (m0&m1&m2&m3&m4&m5&m6&m7&m8&m9&m10&m11&m12&m13&m14&m15&->).
  repeat (apply Forall_cons_iff in HW; destruct HW as [? HW]).
  cbn [Compress.round].
  repeat match goal with
  | |- context [Compress.g ?a ?b ?c ?d ?x ?y] =>
      let G := fresh "G" in
      pose proof (g_words a b c d x y ltac:(assumption) ltac:(assumption) ltac:(assumption) ltac:(assumption)) as G;
      destruct (Compress.g a b c d x y) as [[[? ?] ?] ?]; cbn [fst snd] in G; destruct G as (?&?&?&?)
  end.
  repeat (apply Forall_cons; [assumption|]). apply Forall_nil.
Qed.

Lemma permute_length' m : length (permute m) = 16%nat.
Proof. apply permute_length. Qed.

Lemma rounds7_words s m : length s = 16%nat -> length m = 16%nat ->
  Forall W s -> Forall W (rounds 7 s m).
Proof.
  intros Hs Hm HW. cbn [rounds].
  repeat first
    [ apply round_words; [ | first [exact Hm | apply permute_length] | ]
    | exact HW
    | apply round_length; [ | first [exact Hm | apply permute_length] ]
    | exact Hs ].
Qed.

Lemma Forall_firstn {A} (P : A -> Prop) n l : Forall P l -> Forall P (firstn n l).
Proof. revert l. induction n as [|n IH]; intros l H; [constructor|]. destruct H; constructor; auto. Qed.

Lemma Forall_skipn {A} (P : A -> Prop) n l : Forall P l -> Forall P (skipn n l).
Proof. revert l. induction n as [|n IH]; intros l H; [exact H|]. destruct H; [constructor|]. cbn. auto. Qed.

Lemma xor_lists_words a : forall b, Forall W a -> Forall W b -> Forall W (xor_lists a b).
Proof.
  unfold xor_lists. induction a as [|x a IH]; intros b Ha Hb; [constructor|].
  destruct b as [|y b]; [constructor|]. cbn [combine map fst snd].
  inversion Ha; subst. inversion Hb; subst. constructor; [apply W_xor32; assumption|apply IH; assumption].
Qed.

Lemma IV_words : Forall W IV.
Proof. repeat constructor. Qed.

Lemma counter_lo_W c : W (counter_lo c).
Proof. apply w32_lt. Qed.
Lemma counter_hi_W c : W (counter_hi c).
Proof. apply w32_lt. Qed.

(* chaining values are words when the input chaining value, block length and flags are *)
Theorem spec_c8_words cv block bl ctr fl :
  length cv = 8%nat -> length block = 64%nat -> Forall W cv -> W bl -> W fl ->
  Forall W (spec_c8 cv block bl ctr fl).
Proof.
  intros Hcv Hb HW Hbl Hfl. unfold spec_c8, compress. cbv zeta.
  set (st := cv ++ firstn 4 IV ++ [counter_lo ctr; counter_hi ctr; bl; fl]).
  assert (Hst : length st = 16%nat) by (unfold st; rewrite !app_length, Hcv; reflexivity).
  assert (HWst : Forall W st).
  { unfold st. apply Forall_app. split; [exact HW|]. apply Forall_app. split.
    - apply Forall_firstn, IV_words.
    - repeat constructor; first [apply counter_lo_W | apply counter_hi_W | assumption]. }
  assert (Hm : length (words_of_bytes block) = 16%nat) by (apply words_of_bytes_length; rewrite Hb; reflexivity).
  pose proof (rounds7_words st _ Hst Hm HWst) as HR.
  pose proof (rounds7_length st _ Hst Hm) as HL.
  set (r := rounds 7 st (words_of_bytes block)) in *.
  assert (Hx : length (xor_lists (firstn 8 r) (skipn 8 r)) = 8%nat).
  { unfold xor_lists. rewrite map_length, combine_length, firstn_length, skipn_length, HL. reflexivity. }
  rewrite firstn_app, Hx. change (8 - 8)%nat with 0%nat. rewrite firstn_O, app_nil_r.
  apply Forall_firstn. apply xor_lists_words; [apply Forall_firstn|apply Forall_skipn]; exact HR.
Qed.

(* ---- words <-> little-endian bytes ------------------------------------------------------- *)
Lemma testbit_byte_n w i k : N.testbit (byte_n w i) k = N.testbit w (k + 8 * i) && (k <? 8).
Proof.
  unfold byte_n. change 255 with (N.ones 8). rewrite N.land_ones.
  destruct (k <? 8) eqn:E.
  - rewrite N.mod_pow2_bits_low by lia. rewrite N.shiftr_spec by lia. rewrite andb_true_r. reflexivity.
  - rewrite N.mod_pow2_bits_high by lia. rewrite andb_false_r. reflexivity.
Qed.

Lemma testbit_shiftl_case x s n : N.testbit (N.shiftl x s) n = if n <? s then false else N.testbit x (n - s).
Proof.
  destruct (n <? s) eqn:E.
  - apply N.shiftl_spec_low. lia.
  - apply N.shiftl_spec_high; lia.
Qed.

Lemma word_of_bytes_of_word w : W w ->
  word_of_bytes4 (byte_n w 0) (byte_n w 1) (byte_n w 2) (byte_n w 3) = w.
Proof.
  intros Hw. apply N.bits_inj. intros n. unfold word_of_bytes4.
  rewrite !N.lor_spec, !testbit_shiftl_case, !testbit_byte_n.
  destruct (n <? 32) eqn:E32.
  - destruct (n <? 8) eqn:E8; [replace (n + 8 * 0) with n by lia|].
    { replace (n <? 16) with true by lia. replace (n <? 24) with true by lia.
      rewrite andb_true_r, !orb_false_r. reflexivity. }
    destruct (n <? 16) eqn:E16.
    { replace (n <? 24) with true by lia. replace (n - 8 + 8 * 1) with n by lia.
      replace (n - 8 <? 8) with true by lia.
      rewrite andb_false_r, andb_true_r, !orb_false_r. reflexivity. }
    destruct (n <? 24) eqn:E24.
    { replace (n - 8 <? 8) with false by lia. replace (n - 16 + 8 * 2) with n by lia.
      replace (n - 16 <? 8) with true by lia.
      rewrite !andb_false_r, andb_true_r, !orb_false_r. reflexivity. }
    replace (n - 8 <? 8) with false by lia. replace (n - 16 <? 8) with false by lia.
    replace (n - 24 + 8 * 3) with n by lia. replace (n - 24 <? 8) with true by lia.
    rewrite !andb_false_r, andb_true_r. reflexivity.
  - replace (n <? 8) with false by lia. replace (n <? 16) with false by lia.
    replace (n <? 24) with false by lia.
    replace (n - 8 <? 8) with false by lia. replace (n - 16 <? 8) with false by lia.
    replace (n - 24 <? 8) with false by lia. rewrite !andb_false_r. cbn [orb].
    symmetry. rewrite <- (N.mod_small w (2 ^ 32)) by (apply W_pow; exact Hw).
    apply N.mod_pow2_bits_high. lia.
Qed.

Lemma words_of_bytes_of_words ws : Forall W ws -> words_of_bytes (bytes_of_words ws) = ws.
Proof.
  induction 1 as [|w ws Hw _ IH]; [reflexivity|].
  unfold bytes_of_words in *. cbn [flat_map bytes_of_word app words_of_bytes].
  rewrite IH, word_of_bytes_of_word by exact Hw. reflexivity.
Qed.

Lemma words_of_bytes_app a b : (exists k, length a = (4 * k)%nat) ->
  words_of_bytes (a ++ b) = words_of_bytes a ++ words_of_bytes b.
Proof.
  intros [k Hk]. revert a Hk. induction k as [|k IH]; intros a Hk.
  - destruct a; [reflexivity|discriminate].
  - destruct a as [|b0 [|b1 [|b2 [|b3 tl]]]]; try (cbn in Hk; lia).
    cbn [app words_of_bytes]. f_equal. apply IH. cbn [length] in Hk. lia.
Qed.

(* words from bytes are words when the bytes are bytes *)
Lemma word_of_bytes4_W b0 b1 b2 b3 : b0 < 256 -> b1 < 256 -> b2 < 256 -> b3 < 256 ->
  W (word_of_bytes4 b0 b1 b2 b3).
Proof.
  intros H0 H1 H2 H3. unfold word_of_bytes4.
  assert (S : forall b s, b < 256 -> s <= 24 -> W (N.shiftl b s)).
  { intros b s Hb Hs. unfold W. rewrite N.shiftl_mul_pow2.
    assert (2 ^ s <= 2 ^ 24) by (apply N.pow_le_mono_r; lia).
    change (2 ^ 24) with 16777216 in *. nia. }
  repeat apply W_lor; try (apply S; lia). unfold W. lia.
Qed.

Lemma words_of_bytes_W : forall (n : nat) l, length l = (4 * n)%nat ->
  Forall (fun b => b < 256) l -> Forall W (words_of_bytes l).
Proof.
  induction n as [|n IH]; intros l Hl HB.
  - destruct l; [constructor|discriminate].
  - destruct l as [|b0 [|b1 [|b2 [|b3 tl]]]]; try (cbn in Hl; lia).
    repeat (apply Forall_cons_iff in HB; destruct HB as [? HB]).
    cbn [words_of_bytes]. constructor; [apply word_of_bytes4_W; assumption|].
    apply IH; [cbn [length] in Hl; lia|exact HB].
Qed.
