(* The translated platform dispatch layer (gen/GenPlatform.v: src/platform.rs, the module table of src/lib.rs,
   c/blake3_dispatch.c) against the hand-written side (Model/PlatformDispatch.v, the platform records of
   Model/Kernels.v, PlatformOK of Proofs/KernelsP.v). *)
From Coq Require Import String.
From Coq Require Import NArith List Bool Lia.
From V Require Import Base.Res Base.Word Base.MachInt gen.GenConsts Model.Portable Model.Platform Model.Kernels
  Model.DispatchSyntax gen.GenPlatform Model.PlatformDispatch Model.CHasher Proofs.ListP Proofs.KernelsP.
Import ListNotations.
Open Scope N_scope.

(* ================================================================================================== *)
(* A. the source data: every call passes the enclosing function's parameters in their own order        *)
(* ================================================================================================== *)
Lemma src_argorders_identity :
  forallb argorder_identity
    (src_platform_compress_in_place_arms ++ src_platform_compress_xof_arms ++ src_platform_hash_many_arms ++
     src_platform_xof_many_arms ++ src_c_compress_in_place_ladder ++ src_c_compress_xof_ladder ++
     src_c_xof_many_ladder ++ src_c_hash_many_ladder) = true.
Proof. vm_compute. reflexivity. Qed.

(* every Rust kernel call except the portable ones sits in an `unsafe` block, i.e. is an `unsafe fn` guarded by
   detect(); nothing to prove about it, recorded so that the data is used *)

(* ================================================================================================== *)
(* B. Rust: the translated match arms = the hand-written tables, for arbitrary kernels                 *)
(* ================================================================================================== *)
Section RsTables.
  Variable f : flavour.
  Variables (A5 : Type).

  Lemma src_compress_in_place_table kp k2 k41 k512 kw v cv block bl ctr fl :
    src_platform_compress_in_place (cfgs_of f) k512 k2 k41 kw kp v cv block bl ctr fl =
    option_map (fun k : cip_fn => k cv block bl ctr fl) (rs_x86_compress_table (has_avx512 f) kp k2 k41 k512 v).
  Proof. destruct f, v; reflexivity. Qed.

  Lemma src_compress_xof_table kp k2 k41 k512 kw v cv block bl ctr fl :
    src_platform_compress_xof (cfgs_of f) k512 k2 k41 kw kp v cv block bl ctr fl =
    option_map (fun k : cip_fn => k cv block bl ctr fl) (rs_x86_compress_table (has_avx512 f) kp k2 k41 k512 v).
  Proof. destruct f, v; reflexivity. Qed.

  Lemma src_hash_many_table kp k2 k41 k8 k512 kn kw v inputs key ctr incr fl fs fe cap :
    src_platform_hash_many (cfgs_of f) k8 k512 kn k2 k41 kw kp v inputs key ctr incr fl fs fe cap =
    option_map (fun k : hash_many_fn => k inputs key ctr incr fl fs fe cap)
               (rs_x86_hash_many_table (has_avx512 f) kp k2 k41 k8 k512 v).
  Proof. destruct f, v; reflexivity. Qed.

  (* xof_many: nothing for an empty output; AVX512 (where it exists; all three builds are unix) calls its own
     kernel, every other variant loops over its own compress_xof *)
  Lemma src_xof_many_table k512 (cx : variant -> cip_fn) v cv block bl ctr fl n :
    src_platform_xof_many (cfgs_of f) k512 cx v cv block bl ctr fl n =
    if n =? 0 then Ok []
    else match v with
         | AVX512 => if has_avx512 f then k512 cv block bl ctr fl n
                     else xof_many_loop (cx v) cv block bl ctr fl (N.to_nat n)
         | _ => xof_many_loop (cx v) cv block bl ctr fl (N.to_nat n)
         end.
  Proof. unfold src_platform_xof_many. destruct (n =? 0); [reflexivity|]. destruct f, v; reflexivity. Qed.
End RsTables.

(* the degree table and the debug_assert!(degree <= MAX_SIMD_DEGREE) of simd_degree, in EVERY build *)
Lemma cfgs_eval_cons env c l : cfgs_eval env (c :: l) = cfg_eval env c && cfgs_eval env l.
Proof. reflexivity. Qed.

Theorem src_simd_degree_le_max : forall cfgs v d,
  src_platform_simd_degree cfgs v = Some d -> d <= src_MAX_SIMD_DEGREE cfgs.
Proof.
  intros cfgs v d. unfold src_platform_simd_degree, src_MAX_SIMD_DEGREE.
  cbn [cfgs_eval cfg_eval].
  destruct (cfgs "target_arch=x86"%string), (cfgs "target_arch=x86_64"%string), (cfgs "blake3_avx512_ffi"%string),
    (cfgs "blake3_neon"%string), (cfgs "blake3_wasm32_simd"%string), v; cbn [orb andb];
    intros H; inversion H; subst; lia.
Qed.

Theorem src_simd_degree_exists : forall cfgs v,
  (exists d, src_platform_simd_degree cfgs v = Some d) <-> variant_exists cfgs v = true.
Proof.
  intros cfgs v. unfold src_platform_simd_degree, variant_exists. destruct v; cbn [variant_cfgs];
    [split; [reflexivity|intros _; eexists; reflexivity]|..];
    destruct (cfgs_eval cfgs _);
    (split; [intros [d H]; first [reflexivity | discriminate H] | intros H; first [eexists; reflexivity | discriminate H]]).
Qed.

Lemma src_simd_degree_x86 f v :
  src_platform_simd_degree (cfgs_of f) v =
  rs_x86_hash_many_table (has_avx512 f) rs_degree_Portable rs_degree_SSE2 rs_degree_SSE41 rs_degree_AVX2 rs_degree_AVX512 v.
Proof. destruct f, v; reflexivity. Qed.

Lemma src_max_degree_x86 f : src_MAX_SIMD_DEGREE (cfgs_of f) = if has_avx512 f then 16 else 8.
Proof. destruct f; reflexivity. Qed.

Lemma src_max_degree_or_2 : forall cfgs, src_MAX_SIMD_DEGREE_OR_2 cfgs = N.max (src_MAX_SIMD_DEGREE cfgs) 2.
Proof.
  intros cfgs. unfold src_MAX_SIMD_DEGREE_OR_2, src_MAX_SIMD_DEGREE.
  destruct (cfg_eval cfgs _); [destruct (cfg_eval cfgs _); reflexivity|].
  destruct (cfg_eval cfgs _); [reflexivity|]. destruct (cfg_eval cfgs _); reflexivity.
Qed.

(* the module table of lib.rs: in each flavour every x86 module is exactly one file *)
Lemma src_mod_files_x86 f :
  src_mod_files (cfgs_of f) "sse2" = [match f with FlDefault => "ffi_sse2.rs" | _ => "rust_sse2.rs" end]%string /\
  src_mod_files (cfgs_of f) "sse41" = [match f with FlDefault => "ffi_sse41.rs" | _ => "rust_sse41.rs" end]%string /\
  src_mod_files (cfgs_of f) "avx2" = [match f with FlDefault => "ffi_avx2.rs" | _ => "rust_avx2.rs" end]%string /\
  src_mod_files (cfgs_of f) "avx512" = (if has_avx512 f then ["ffi_avx512.rs"] else [])%string /\
  src_mod_files (cfgs_of f) "neon" = [] /\ src_mod_files (cfgs_of f) "wasm32_simd" = [].
Proof. destruct f; vm_compute; repeat split. Qed.

(* ================================================================================================== *)
(* C. Rust: translated dispatch + kernel models of the files = the platform records of Kernels.v       *)
(* ================================================================================================== *)
Definition agrees (cfgs : string -> bool) (v : variant) (p : platform) : Prop :=
  src_platform_simd_degree cfgs v = Some (p_degree p) /\
  (forall cv block bl ctr fl, src_cip cfgs v cv block bl ctr fl = Some (p_compress_in_place p cv block bl ctr fl)) /\
  (forall cv block bl ctr fl, src_cx cfgs v cv block bl ctr fl = Some (p_compress_xof p cv block bl ctr fl)) /\
  (forall inputs key ctr incr fl fs fe cap,
     src_hm cfgs v inputs key ctr incr fl fs fe cap = Some (p_hash_many p inputs key ctr incr fl fs fe cap)) /\
  (forall cv block bl ctr fl n, src_xm cfgs v cv block bl ctr fl n = p_xof_many p cv block bl ctr fl n).

Definition absent (cfgs : string -> bool) (v : variant) : Prop :=
  variant_exists cfgs v = false /\ src_platform_simd_degree cfgs v = None /\
  (forall cv block bl ctr fl, src_cip cfgs v cv block bl ctr fl = None) /\
  (forall cv block bl ctr fl, src_cx cfgs v cv block bl ctr fl = None) /\
  (forall inputs key ctr incr fl fs fe cap, src_hm cfgs v inputs key ctr incr fl fs fe cap = None).

Lemma kernels_of_mod_x86 f :
  kernels_of_mod (cfgs_of f) "sse2" = kernels_of_file (match f with FlDefault => "ffi_sse2.rs" | _ => "rust_sse2.rs" end) /\
  kernels_of_mod (cfgs_of f) "sse41" = kernels_of_file (match f with FlDefault => "ffi_sse41.rs" | _ => "rust_sse41.rs" end) /\
  kernels_of_mod (cfgs_of f) "avx2" = kernels_of_file (match f with FlDefault => "ffi_avx2.rs" | _ => "rust_avx2.rs" end) /\
  kernels_of_mod (cfgs_of f) "avx512" = (if has_avx512 f then kernels_of_file "ffi_avx512.rs" else portable_kernels) /\
  kernels_of_mod (cfgs_of f) "neon" = portable_kernels /\ kernels_of_mod (cfgs_of f) "wasm32_simd" = portable_kernels.
Proof.
  unfold kernels_of_mod. destruct (src_mod_files_x86 f) as (-> & -> & -> & -> & -> & ->).
  destruct f; repeat split.
Qed.

(* the generic xof_many loop over a guarded compress_xof = the guarded generic loop of Kernels.v *)
Lemma xof_loop_guarded cv block bl ctr fl n :
  xof_many_loop cx_rows cv block bl ctr fl n =
  guard_xm (xof_many_generic compress_xof_rows) cv block bl ctr fl (N.of_nat n).
Proof.
  unfold guard_xm, xof_many_generic, portable_xof_many. rewrite Nat2N.id.
  unfold cx_rows, guard_cip. destruct (cv_ok cv) eqn:E; apply xof_many_loop_ext; intros c; rewrite E; reflexivity.
Qed.

Lemma xof_generic_arm cv block bl ctr fl n :
  (if n =? 0 then Ok [] else xof_many_loop cx_rows cv block bl ctr fl (N.to_nat n)) =
  guard_xm (xof_many_generic compress_xof_rows) cv block bl ctr fl n.
Proof.
  rewrite xof_loop_guarded, N2Nat.id. destruct (N.eqb_spec n 0) as [->|_]; [|reflexivity].
  unfold guard_xm, xof_many_generic, portable_xof_many. destruct (cv_ok cv); reflexivity.
Qed.

Lemma xof_portable_arm cv block bl ctr fl n :
  (if n =? 0 then Ok [] else xof_many_loop compress_xof cv block bl ctr fl (N.to_nat n)) =
  portable_xof_many cv block bl ctr fl n.
Proof. unfold portable_xof_many. destruct (N.eqb_spec n 0) as [->|_]; reflexivity. Qed.

Lemma xof_avx512_arm cv block bl ctr fl n :
  (if n =? 0 then Ok [] else guard_xm (xof_many_avx512 compress_xof_rows) cv block bl ctr fl n) =
  guard_xm (xof_many_avx512_rs compress_xof_rows) cv block bl ctr fl n.
Proof.
  unfold guard_xm, xof_many_avx512_rs, portable_xof_many.
  destruct (N.eqb_spec n 0) as [->|_]; [destruct (cv_ok cv); reflexivity|reflexivity].
Qed.

Lemma src_cip_x86 f v cv block bl ctr fl :
  src_cip (cfgs_of f) v cv block bl ctr fl =
  option_map (fun k : cip_fn => k cv block bl ctr fl)
             (rs_x86_compress_table (has_avx512 f) compress_in_place cip_rows cip_rows cip_rows v).
Proof.
  unfold src_cip. destruct (kernels_of_mod_x86 f) as (K2 & K41 & K8 & K512 & KN & KW).
  rewrite K2, K41, K512, KW, src_compress_in_place_table. destruct f, v; reflexivity.
Qed.

Lemma src_cx_x86 f v cv block bl ctr fl :
  src_cx (cfgs_of f) v cv block bl ctr fl =
  option_map (fun k : cip_fn => k cv block bl ctr fl)
             (rs_x86_compress_table (has_avx512 f) compress_xof cx_rows cx_rows cx_rows v).
Proof.
  unfold src_cx. destruct (kernels_of_mod_x86 f) as (K2 & K41 & K8 & K512 & KN & KW).
  rewrite K2, K41, K512, KW, src_compress_xof_table. destruct f, v; reflexivity.
Qed.

Lemma src_hm_x86 f v inputs key ctr incr fl fs fe cap :
  src_hm (cfgs_of f) v inputs key ctr incr fl fs fe cap =
  option_map (fun k : hash_many_fn => k inputs key ctr incr fl fs fe cap)
    (rs_x86_hash_many_table (has_avx512 f) hash_many
       (match f with FlDefault => hm_c4 | _ => hm_rs4 end) (match f with FlDefault => hm_c4 | _ => hm_rs4 end)
       (match f with FlDefault => hm_c8 | _ => hm_rs8 end) hm_c16 v).
Proof.
  unfold src_hm. destruct (kernels_of_mod_x86 f) as (K2 & K41 & K8 & K512 & KN & KW).
  rewrite K2, K41, K8, K512, KN, KW, src_hash_many_table. destruct f, v; reflexivity.
Qed.

(* the generic arm of xof_many at a variant whose compress_xof is cx *)
Lemma src_xm_generic f v (cx : cip_fn) cv block bl ctr fl n :
  (forall c, src_cx (cfgs_of f) v cv block bl c fl = Some (cx cv block bl c fl)) ->
  v <> AVX512 \/ has_avx512 f = false ->
  src_xm (cfgs_of f) v cv block bl ctr fl n =
  if n =? 0 then Ok [] else xof_many_loop cx cv block bl ctr fl (N.to_nat n).
Proof.
  intros Hcx Hv. unfold src_xm. rewrite src_xof_many_table.
  destruct (n =? 0); [reflexivity|].
  assert (E : xof_many_loop (fun cv0 block0 bl0 ctr0 fl0 =>
                 match src_cx (cfgs_of f) v cv0 block0 bl0 ctr0 fl0 with Some r => r | None => [] end)
                 cv block bl ctr fl (N.to_nat n) = xof_many_loop cx cv block bl ctr fl (N.to_nat n)).
  { apply xof_many_loop_ext. intros c. rewrite Hcx. reflexivity. }
  destruct v; try exact E. destruct Hv as [Hv|Hv]; [congruence|]. rewrite Hv. exact E.
Qed.

Ltac tbl :=
  cbv [rs_x86_compress_table rs_x86_hash_many_table portable_platform sse2_ffi_platform sse2_platform sse41_platform
       sse41_ffi_platform avx2_platform avx2_ffi_platform avx512_platform p_degree p_compress_in_place p_compress_xof
       p_hash_many p_xof_many has_avx512 hm_c4 hm_c8 hm_c16 hm_rs4 hm_rs8];
  reflexivity.

Theorem src_platform_agrees : forall f v,
  match model_platform f v with
  | Some p => agrees (cfgs_of f) v p
  | None => absent (cfgs_of f) v
  end.
Proof.
  intros f v.
  assert (Habs : forall v', rs_x86_hash_many_table (has_avx512 f) 1 1 1 1 1 v' = None -> absent (cfgs_of f) v').
  { intros v' H. unfold absent. split; [destruct f, v'; try discriminate H; reflexivity|].
    split; [rewrite src_simd_degree_x86; destruct f, v'; try discriminate H; reflexivity|].
    split; [intros; rewrite src_cip_x86; destruct f, v'; try discriminate H; reflexivity|].
    split; [intros; rewrite src_cx_x86; destruct f, v'; try discriminate H; reflexivity|].
    intros; rewrite src_hm_x86; destruct f, v'; try discriminate H; reflexivity. }
  assert (Hbas : forall p cx,
     rs_x86_hash_many_table (has_avx512 f) rs_degree_Portable rs_degree_SSE2 rs_degree_SSE41 rs_degree_AVX2
                            rs_degree_AVX512 v = Some (p_degree p) ->
     rs_x86_compress_table (has_avx512 f) compress_in_place cip_rows cip_rows cip_rows v = Some (p_compress_in_place p) ->
     rs_x86_compress_table (has_avx512 f) compress_xof cx_rows cx_rows cx_rows v = Some cx ->
     cx = p_compress_xof p ->
     rs_x86_hash_many_table (has_avx512 f) hash_many
       (match f with FlDefault => hm_c4 | _ => hm_rs4 end) (match f with FlDefault => hm_c4 | _ => hm_rs4 end)
       (match f with FlDefault => hm_c8 | _ => hm_rs8 end) hm_c16 v = Some (p_hash_many p) ->
     (forall cv block bl ctr fl n, src_xm (cfgs_of f) v cv block bl ctr fl n = p_xof_many p cv block bl ctr fl n) ->
     agrees (cfgs_of f) v p).
  { intros p cx H1 H2 H3 H3' H4 H5. unfold agrees.
    split; [rewrite src_simd_degree_x86; exact H1|].
    split; [intros; rewrite src_cip_x86, H2; reflexivity|].
    split; [intros; rewrite src_cx_x86, H3, H3'; reflexivity|].
    split; [intros; rewrite src_hm_x86, H4; reflexivity|]. exact H5. }
  destruct v; cbn [model_platform].
  - (* Portable *)
    apply (Hbas (portable_platform 16) compress_xof).
    1-5: tbl.
    intros. rewrite (src_xm_generic f Portable compress_xof).
    + apply xof_portable_arm.
    + intros c. rewrite src_cx_x86. reflexivity.
    + left. discriminate.
  - (* SSE2 *)
    apply (Hbas _ cx_rows); [destruct f; tbl..|].
    intros. rewrite (src_xm_generic f SSE2 cx_rows).
    + rewrite xof_generic_arm. destruct f; reflexivity.
    + intros c. rewrite src_cx_x86. reflexivity.
    + left. discriminate.
  - (* SSE41 *)
    apply (Hbas _ cx_rows); [destruct f; tbl..|].
    intros. rewrite (src_xm_generic f SSE41 cx_rows).
    + rewrite xof_generic_arm. destruct f; reflexivity.
    + intros c. rewrite src_cx_x86. reflexivity.
    + left. discriminate.
  - (* AVX2 *)
    apply (Hbas _ cx_rows); [destruct f; tbl..|].
    intros. rewrite (src_xm_generic f AVX2 cx_rows).
    + rewrite xof_generic_arm. destruct f; reflexivity.
    + intros c. rewrite src_cx_x86. reflexivity.
    + left. discriminate.
  - (* AVX512 *)
    destruct (has_avx512 f) eqn:E.
    + apply (Hbas _ cx_rows); [destruct f; try discriminate E; tbl..|].
      intros. unfold src_xm. rewrite src_xof_many_table, E.
      destruct (kernels_of_mod_x86 f) as (_ & _ & _ & K512 & _ & _). rewrite K512, E.
      apply xof_avx512_arm.
    + apply Habs. reflexivity.
  - apply Habs. reflexivity.
  - apply Habs. reflexivity.
Qed.

(* ================================================================================================== *)
(* D. Platform::detect                                                                                 *)
(* ================================================================================================== *)
(* in the three x86-64 builds (no miri, no no_* testing feature, hook off) detect() is the hand-written ladder;
   the forced variant of the hook is not consulted *)
Theorem src_detect_x86 : forall f cpu forced,
  src_detect (cfgs_of f) cpu forced = detect_x86 (has_avx512 f) cpu.
Proof.
  intros f cpu forced. unfold detect_x86, avail.
  destruct f; cbv [src_detect src_avx512_detected src_avx2_detected src_sse41_detected src_sse2_detected
                   src_avx512_detected_features src_avx2_detected_features src_sse41_detected_features
                   src_sse2_detected_features forallb has_avx512];
    repeat match goal with |- context [cfgs_eval ?e ?l] => let b := eval vm_compute in (cfgs_eval e l) in
                                                            change (cfgs_eval e l) with b end;
    repeat match goal with |- context [cfg_eval ?e ?l] => let b := eval vm_compute in (cfg_eval e l) in
                                                            change (cfg_eval e l) with b end;
    cbn [andb];
    destruct (cpu "avx512f"%string), (cpu "avx512vl"%string), (cpu "avx2"%string), (cpu "sse4.1"%string),
      (cpu "sse2"%string); reflexivity.
Qed.

(* the ladder returns an available level, and no available level is higher *)
Theorem detect_x86_highest : forall a cpu,
  avail a cpu (detect_x86 a cpu) = true /\
  forall v, avail a cpu v = true -> level v <= level (detect_x86 a cpu).
Proof.
  intros a cpu. unfold detect_x86.
  destruct (avail a cpu AVX512) eqn:E5; [split; [exact E5|intros v _; destruct v; cbn; lia]|].
  destruct (avail a cpu AVX2) eqn:E4; [split; [exact E4|intros v Hv; destruct v; cbn; try lia; congruence]|].
  destruct (avail a cpu SSE41) eqn:E3; [split; [exact E3|intros v Hv; destruct v; cbn; try lia; congruence]|].
  destruct (avail a cpu SSE2) eqn:E2; [split; [exact E2|intros v Hv; destruct v; cbn; try lia; congruence]|].
  split; [reflexivity|]. intros v Hv; destruct v; cbn; try lia; try congruence; discriminate Hv.
Qed.

Corollary src_detect_avx512_iff : forall f cpu forced,
  src_detect (cfgs_of f) cpu forced = AVX512 <->
  has_avx512 f = true /\ cpu "avx512f"%string = true /\ cpu "avx512vl"%string = true.
Proof.
  intros f cpu forced. rewrite src_detect_x86. unfold detect_x86, avail.
  destruct (has_avx512 f), (cpu "avx512f"%string), (cpu "avx512vl"%string), (cpu "avx2"%string),
    (cpu "sse4.1"%string), (cpu "sse2"%string); cbn; split; try discriminate; try tauto;
    intros (A & B & C); discriminate.
Qed.

(* in EVERY build, with the hook silent, detect() returns a variant that exists in that build *)
Theorem src_detect_exists : forall cfgs cpu, variant_exists cfgs (src_detect cfgs cpu None) = true.
Proof.
  intros cfgs cpu. unfold src_detect, variant_exists.
  generalize (src_avx512_detected cfgs cpu) (src_avx2_detected cfgs cpu) (src_sse41_detected cfgs cpu)
             (src_sse2_detected cfgs cpu). intros b5 b4 b3 b2.
  cbn [cfgs_eval cfg_eval].
  destruct (cfgs "blake3_team_blake3_verif"%string && (cfgs "feature=std"%string && true) && true);
  destruct (cfgs "miri"%string); [reflexivity| |reflexivity|];
  destruct (cfgs "target_arch=x86"%string || (cfgs "target_arch=x86_64"%string || false)) eqn:X;
  destruct (cfgs "blake3_avx512_ffi"%string) eqn:A; destruct b5, b4, b3, b2; cbn [andb orb variant_cfgs cfgs_eval cfg_eval];
  rewrite ?X, ?A; try reflexivity;
  destruct (cfgs "blake3_neon"%string) eqn:Ne; cbn [andb orb variant_cfgs cfgs_eval cfg_eval]; rewrite ?Ne; try reflexivity;
  destruct (cfgs "blake3_wasm32_simd"%string) eqn:W; cbn [andb orb variant_cfgs cfgs_eval cfg_eval]; rewrite ?W; reflexivity.
Qed.

(* the order of the tests as data: AVX-512 first, then AVX2, SSE4.1, SSE2 *)
Lemma src_detect_helper_order :
  flat_map (fun s => match snd (fst s) with THelper h => [h] | _ => [] end) src_detect_steps =
  ["avx512_detected"; "avx2_detected"; "sse41_detected"; "sse2_detected"]%string.
Proof. reflexivity. Qed.

(* ================================================================================================== *)
(* E. every platform the dispatch can select is PlatformOK                                             *)
(* ================================================================================================== *)
Theorem sse2_ffi_platform_ok : PlatformOK sse2_ffi_platform.
Proof. exact sse41_ffi_platform_ok. Qed.

Theorem model_platform_ok : forall f v p, model_platform f v = Some p -> PlatformOK p.
Proof.
  intros f v p H. destruct v; cbn [model_platform] in H.
  - inversion H; subst. apply (sim_platform_ok 1 16); (reflexivity || (intro Hc; discriminate Hc)).
  - inversion H; subst. destruct f; [exact sse2_ffi_platform_ok|exact sse2_platform_ok|exact sse2_platform_ok].
  - inversion H; subst. destruct f; [exact sse41_ffi_platform_ok|exact sse41_platform_ok|exact sse41_platform_ok].
  - inversion H; subst. destruct f; [exact avx2_ffi_platform_ok|exact avx2_platform_ok|exact avx2_platform_ok].
  - destruct (has_avx512 f); [|discriminate H]. inversion H; subst. exact avx512_platform_ok.
  - discriminate H.
  - discriminate H.
Qed.

(* whatever the CPU answers, detect() lands on a variant whose translated dispatch agrees with a PlatformOK record *)
Theorem src_detect_ok : forall f cpu forced,
  exists p, model_platform f (src_detect (cfgs_of f) cpu forced) = Some p /\
            agrees (cfgs_of f) (src_detect (cfgs_of f) cpu forced) p /\ PlatformOK p.
Proof.
  intros f cpu forced. rewrite src_detect_x86.
  destruct (detect_x86_highest (has_avx512 f) cpu) as [Hav _].
  set (v := detect_x86 (has_avx512 f) cpu) in *.
  pose proof (src_platform_agrees f v) as Ha.
  destruct (model_platform f v) as [p|] eqn:E.
  - exists p. split; [reflexivity|]. split; [exact Ha|]. exact (model_platform_ok f v p E).
  - exfalso. destruct v; cbn [model_platform] in E; try discriminate E; cbn [avail] in Hav; try discriminate Hav.
    destruct (has_avx512 f); [discriminate E|discriminate Hav].
Qed.

(* ================================================================================================== *)
(* F. the C dispatcher (x86-64 build: IS_X86 defined, nothing disabled, no NEON)                       *)
(* ================================================================================================== *)
Lemma src_c_compress_in_place_table : forall (k512 k41 k2 kp : cip_fn) features cv block bl ctr fl,
  src_c_compress_in_place defs_c_x86 k512 kp k2 k41 features cv block bl ctr fl =
  c_x86_compress_table k512 k41 k2 kp features cv block bl ctr fl.
Proof.
  intros. unfold src_c_compress_in_place, c_x86_compress_table, has_bit, ftest_eval.
  repeat match goal with |- context [cfgs_eval ?e ?l] => let b := eval vm_compute in (cfgs_eval e l) in
                                                          change (cfgs_eval e l) with b end.
  cbn [andb]. repeat (destruct (negb _); [reflexivity|]). reflexivity.
Qed.

Lemma src_c_compress_xof_table : forall (k512 k41 k2 kp : cip_fn) features cv block bl ctr fl,
  src_c_compress_xof defs_c_x86 k512 kp k2 k41 features cv block bl ctr fl =
  c_x86_compress_table k512 k41 k2 kp features cv block bl ctr fl.
Proof.
  intros. unfold src_c_compress_xof, c_x86_compress_table, has_bit, ftest_eval.
  repeat match goal with |- context [cfgs_eval ?e ?l] => let b := eval vm_compute in (cfgs_eval e l) in
                                                          change (cfgs_eval e l) with b end.
  cbn [andb]. repeat (destruct (negb _); [reflexivity|]). reflexivity.
Qed.

Lemma src_c_hash_many_table : forall k512 k8 k41 k2 kn kp features inputs num_inputs blocks key ctr incr fl fs fe,
  src_c_hash_many defs_c_x86 k8 k512 kn kp k2 k41 features inputs num_inputs blocks key ctr incr fl fs fe =
  c_x86_wide_table k512 k8 k41 k2 kp features inputs num_inputs blocks key ctr incr fl fs fe.
Proof.
  intros. unfold src_c_hash_many, c_x86_wide_table, has_bit, has_all, ftest_eval.
  repeat match goal with |- context [cfgs_eval ?e ?l] => let b := eval vm_compute in (cfgs_eval e l) in
                                                          change (cfgs_eval e l) with b end.
  cbn [andb]. change (N.lor src_c_feature_AVX512F src_c_feature_AVX512VL) with 96.
  destruct (N.land features 96 =? 96); [reflexivity|].
  repeat (destruct (negb _); [reflexivity|]). reflexivity.
Qed.

Lemma src_c_simd_degree_table : forall features,
  src_c_simd_degree defs_c_x86 features = c_x86_wide_table 16 8 4 4 1 features.
Proof.
  intros. unfold src_c_simd_degree, c_x86_wide_table, has_bit, has_all, ftest_eval.
  repeat match goal with |- context [cfgs_eval ?e ?l] => let b := eval vm_compute in (cfgs_eval e l) in
                                                          change (cfgs_eval e l) with b end.
  cbn [andb]. change (N.lor src_c_feature_AVX512F src_c_feature_AVX512VL) with 96.
  destruct (N.land features 96 =? 96); [reflexivity|].
  repeat (destruct (negb _); [reflexivity|]). reflexivity.
Qed.

Lemma src_c_xof_many_table : forall k512 (cx : cip_fn) features cv block bl ctr fl n,
  src_c_xof_many defs_c_x86 cx k512 features cv block bl ctr fl n =
  if n =? 0 then Ok []
  else if has_bit features src_c_feature_AVX512VL then k512 cv block bl ctr fl n
  else xof_many_loop cx cv block bl ctr fl (N.to_nat n).
Proof.
  intros. unfold src_c_xof_many, has_bit, ftest_eval.
  repeat match goal with |- context [cfgs_eval ?e ?l] => let b := eval vm_compute in (cfgs_eval e l) in
                                                          change (cfgs_eval e l) with b end.
  reflexivity.
Qed.

(* the degree ladder and the hash_many ladder test the same features in the same order: at every feature mask the
   degree returned is the degree of the kernel blake3_hash_many runs *)
Theorem src_c_degree_matches_hash_many : forall features,
  src_c_simd_degree defs_c_x86 features =
  snd (c_x86_wide_table (src_c_feature_AVX512F, 16) (src_c_feature_AVX2, 8) (src_c_feature_SSE41, 4)
                        (src_c_feature_SSE2, 4) (0, 1) features).
Proof.
  intros. rewrite src_c_simd_degree_table. unfold c_x86_wide_table.
  destruct (has_all _ _); [reflexivity|]. repeat (destruct (has_bit _ _); [reflexivity|]). reflexivity.
Qed.

(* for every feature mask the degree is one for which the C model's platform (Model/CHasher.v c_platform) is PlatformOK *)
Theorem src_c_simd_degree_ok : forall features, PlatformOK (c_platform (src_c_simd_degree defs_c_x86 features)).
Proof.
  intros. rewrite src_c_simd_degree_table. unfold c_x86_wide_table, c_platform.
  destruct (has_all _ _); [apply sim_platform_ok; (reflexivity || (intro Hc; discriminate Hc))|].
  repeat (destruct (has_bit _ _); [apply sim_platform_ok; (reflexivity || (intro Hc; discriminate Hc))|]).
  apply sim_platform_ok; (reflexivity || (intro Hc; discriminate Hc)).
Qed.

(* with the kernel models of Kernels.v behind the four symbols, the dispatched single-block functions are the
   portable ones at every feature mask and every argument *)
Theorem src_c_compress_in_place_ok : forall features cv block bl ctr fl,
  src_c_compress_in_place defs_c_x86 cip_rows compress_in_place cip_rows cip_rows features cv block bl ctr fl =
  compress_in_place cv block bl ctr fl.
Proof.
  intros. rewrite src_c_compress_in_place_table. unfold c_x86_compress_table.
  repeat (destruct (has_bit _ _); [apply cip_rows_total|]). reflexivity.
Qed.

Theorem src_c_compress_xof_ok : forall features cv block bl ctr fl,
  src_c_compress_xof defs_c_x86 cx_rows compress_xof cx_rows cx_rows features cv block bl ctr fl =
  compress_xof cv block bl ctr fl.
Proof.
  intros. rewrite src_c_compress_xof_table. unfold c_x86_compress_table.
  repeat (destruct (has_bit _ _); [apply cx_rows_total|]). reflexivity.
Qed.

Lemma hash_many_c1_ok cip : cip_ok cip -> hm_c_ok (hash_many_c1 cip).
Proof.
  intros Hc inputs blocks key ctr incr fl fs fe Lk U Hctr. unfold hash_many_c1.
  apply (single_loop_spec (hash_one_c cip) cadd_c false blocks key incr fl fs fe (hash_one_c_ok cip Hc) cadd_c_ok Lk);
    [exact U|exact Hctr|intros Hd; discriminate Hd].
Qed.

(* blake3_hash_many at every feature mask: whichever of the five modelled kernels is selected, the result is the
   specification of hash_many (hm_spec: the CVs of the inputs with the counters counter, counter+1, ..) *)
Theorem src_c_hash_many_ok : forall kn features inputs blocks key ctr incr fl fs fe,
  length key = 8%nat -> (forall i, In i inputs -> length i = (N.to_nat blocks * 64)%nat) ->
  ctr + N.of_nat (length inputs) < 2 ^ 64 ->
  src_c_hash_many defs_c_x86
    (c_hm (hash_many_c8 (load_counters_cmp 8) (load_counters_cmp 4) compress_in_place_rows))
    (c_hm (hash_many_c16 compress_in_place_rows))
    kn (c_hm (hash_many_c1 compress_in_place))
    (c_hm (hash_many_c4 (load_counters_cmp 4) compress_in_place_rows))
    (c_hm (hash_many_c4 (load_counters_cmp 4) compress_in_place_rows))
    features inputs (N.of_nat (length inputs)) blocks key ctr incr fl fs fe =
  Ok (hm_spec inputs key ctr incr fl fs fe).
Proof.
  intros kn features inputs blocks key ctr incr fl fs fe Lk U Hc.
  rewrite src_c_hash_many_table. unfold c_x86_wide_table, c_hm.
  assert (L4 : lc_ok 4 (load_counters_cmp 4)) by (apply load_counters_cmp_ok; cbn; lia).
  assert (L8 : lc_ok 8 (load_counters_cmp 8)) by (apply load_counters_cmp_ok; cbn; lia).
  destruct (has_all _ _); [apply hash_many_c16_ok; [exact cip_ok_rows|assumption..]|].
  destruct (has_bit _ _); [apply hash_many_c8_ok; [exact L8|exact L4|exact cip_ok_rows|assumption..]|].
  destruct (has_bit _ _); [apply hash_many_c4_ok; [exact L4|exact cip_ok_rows|assumption..]|].
  destruct (has_bit _ _); [apply hash_many_c4_ok; [exact L4|exact cip_ok_rows|assumption..]|].
  apply hash_many_c1_ok; [|assumption..]. intros cv block bl c f _. reflexivity.
Qed.

(* blake3_xof_many at every feature mask: the AVX-512 lane kernel or the loop over the dispatched
   blake3_compress_xof, both equal to the portable loop *)
Theorem src_c_xof_many_ok : forall features cv block bl ctr fl n, ctr + n < 2 ^ 64 ->
  src_c_xof_many defs_c_x86
    (src_c_compress_xof defs_c_x86 cx_rows compress_xof cx_rows cx_rows features)
    (guard_xm (xof_many_avx512 compress_xof_rows))
    features cv block bl ctr fl n =
  portable_xof_many cv block bl ctr fl n.
Proof.
  intros features cv block bl ctr fl n Hc. rewrite src_c_xof_many_table.
  destruct (N.eqb_spec n 0) as [->|Hn]; [reflexivity|].
  destruct (has_bit _ _).
  - unfold guard_xm, cv_ok. destruct (Nat.eqb_spec (length cv) 8) as [E|E]; [|reflexivity].
    apply xof_many_avx512_ok; [exact cx_ok_rows|exact E|exact Hc].
  - unfold portable_xof_many. apply xof_many_loop_ext. intros c. apply src_c_compress_xof_ok.
Qed.
