"""C16: RustCrypto trait impls and the legacy guts API agree with the inherent API."""
from props.common import Rng, bspec, modes, number, CHUNK, hexspec, TEST_KEY
from props.hist import PLATFORMS, upd_size

RULE = ("call sequences over the trait methods (Update::update, FixedOutput::finalize_fixed, FixedOutputReset, "
        "ExtendableOutput(+Reset) with XofReader::read (first read and sequences of unaligned / whole-block reads on one reader), Reset::reset, KeyInit::new, Digest::new) mirrored op by op "
        "with the inherent methods on a second instance; guts::ChunkState for chunk counters 0, 1, 2^32-1, 2^32, "
        "2^63, 2^64-1, lengths 0..1024 with random splits, both root flags (root only with counter 0: a root "
        "chunk is chunk 0 by definition; the code debug_asserts it); guts::parent_cv on random CV pairs. "
        "Non-trivial = distinct sequence using a resetting variant or a multi-update guts chunk.")
MODELLED = ["digest crate glue (Array conversions, Digest blanket impls): trait methods are modelled as their bodies in src/traits.rs"]
ASSUMPTIONS = ["guts root finalization is specified for chunk counter 0 only"]


def gen_cases(seed, tier):
    rng = Rng(seed)
    lines = []
    ms = modes(rng)
    nt = 40 if tier == "thorough" else 8
    for plat in PLATFORMS:
        for _ in range(nt):
            m = rng.choice(ms)
            ops = ["n"]   # instance 0 via traits, instance 1 via inherent methods
            for _ in range(rng.range(2, 12)):
                k = rng.below(100)
                if k < 45:
                    b = bspec(rng, upd_size(rng, plat, 10))
                    ops += [f"tu:0:{b}", f"u:1:{b}"]
                elif k < 55:
                    ops += ["tf:0", "f:1"]
                elif k < 65:
                    ops += ["tfr:0", "f:1", "r:1", "c:0", "c:1"]
                elif k < 75:
                    n = rng.choice([0, 1, 32, 64, 65, 200])
                    ops += [f"tx:0:{n}", f"x:1:{n}"]
                elif k < 85:
                    n = rng.choice([0, 1, 32, 64, 65, 200])
                    ops += [f"txr:0:{n}", f"x:1:{n}", "r:1", "c:0", "c:1"]
                elif k < 93:
                    ops += ["tr:0", "r:1"]
                else:
                    ops += ["c:0", "c:1"]
            ops += ["tf:0", "f:1", "c:0", "c:1"]
            lines.append(f"H {m} {plat} " + " ".join(ops))
        # XofReader::read sequences on ONE reader: unaligned reads followed by whole-block reads, mirrored by inherent fill
        for _ in range(6 if tier == "thorough" else 2):
            m = rng.choice(ms)
            b = bspec(rng, rng.choice([0, 1, 64, 1025, 3000]))
            ops = [f"u:0:{b}", "tx:0:0", "xo:0"]      # reader 0 through the trait, reader 1 inherent
            for _ in range(rng.range(3, 8)):
                n = rng.choice([rng.range(1, 63), 64, 128, 64 * rng.range(1, 20), rng.range(1, 700), 10, 32, 100])
                ops += [f"trd:0:{n}", f"rf:1:{n}", "rp:0", "rp:1"]
            lines.append(f"H {m} {plat} " + " ".join(ops))
        key = f"keyed=prng/{rng.below(9999)}/32"
        lines.append(f"H {key} {plat} tk tu:1:paint/0/3000 u:0:paint/0/3000 tf:1 f:0 tx:1:100 x:0:100")
        lines.append(f"H hash {plat} td tu:1:hex/616263 tf:1 oh:hex/616263")
        # KeyInit::new_from_slice: exactly the 32-byte keys (every length 0..40, 48, 64, 96 on one platform is enough:
        # the key check does not depend on the platform)
        if plat == PLATFORMS[0]:
            lines.append("tconst")
            for n in list(range(0, 41)) + [48, 63, 64, 65, 96, 128]:
                lines.append(f"tks prng/{rng.below(9999)}/{n} {bspec(rng, rng.choice([0, 3, 65, 1025]))}")
        # guts
        for ctr in [0, 1, (1 << 32) - 1, 1 << 32, 1 << 63, (1 << 64) - 1]:
            for _ in range(3 if tier == "thorough" else 1):
                total = rng.choice([0, 1, 63, 64, 65, 1023, 1024, rng.range(0, 1024)])
                pieces, left = [], total
                while left > 0:
                    s = rng.choice([left, rng.range(1, left), rng.range(1, min(left, 70))])
                    pieces.append(bspec(rng, s))
                    left -= s
                root = 1 if ctr == 0 and rng.chance(0.5) else 0
                lines.append(f"gc {plat} {ctr} {root} {','.join(pieces)}")
        lines.append(f"gc {plat} 0 1 paint/0/1024")
        lines.append(f"gc {plat} 0 1 ")
        for root in (0, 1):
            lines.append(f"gp {plat} prng/{rng.below(9999)}/32 prng/{rng.below(9999)}/32 {root}")
    return number(lines)


def nontrivial(rest, model_line):
    return any(t in rest for t in ("tfr:", "txr:", "tr:", "trd:")) or (rest.startswith("gc ") and "," in rest)


def correspondence(ctx):
    drv = ctx.need_model()
    cases = gen_cases(ctx.seed, ctx.tier)
    builds = [("default", "debug")]
    if ctx.tier == "thorough":
        builds += [("default", "release")]
    for flavour, profile in builds:
        b = ctx.need_harness(flavour, profile)
        ctx.correspond("traits-guts", cases, drv, b, profile=profile, build=flavour, nontrivial=nontrivial)


def classify(f):
    return None
