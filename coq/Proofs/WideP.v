(* C01 core: the all-at-once path of the Rust crate (compress_subtree_wide and
   friends, for every SIMD degree) computes the specification's tree. *)
From V Require Import Proofs.ListP.
From V Require Import Base.Res Base.Word Base.MachInt gen.GenConsts gen.GenFormulas
  Spec.Compress Spec.Tree Model.Portable Model.Platform Model.RsChunk Model.RsWide
  Proofs.ChunkP Proofs.TreeP Proofs.FormulasP.
Open Scope N_scope.

(* ---- chunks_exact ------------------------------------------------------------- *)
Fixpoint ce_k (k : nat) (l : list N) : list (list N) * list N :=
  match k with
  | O => ([], l)
  | S k' => let '(cs, r) := ce_k k' (drop 1024 l) in (take 1024 l :: cs, r)
  end.

Lemma chunks_exact_ce_k : forall fuel l, (N.to_nat (len l / 1024) < fuel)%nat ->
  chunks_exact fuel 1024 l = ce_k (N.to_nat (len l / 1024)) l.
Proof.
  induction fuel as [|fuel IH]; intros l Hf; [lia|].
  cbn [chunks_exact]. destruct (Nat.ltb (length l) 1024) eqn:E.
  - apply Nat.ltb_lt in E. replace (len l / 1024) with 0 by (unfold len; lia). reflexivity.
  - apply Nat.ltb_ge in E.
    assert (Hq : len l / 1024 = N.succ (len (drop 1024 l) / 1024)).
    { rewrite len_drop. unfold len in *. lia. }
    rewrite Hq, N2Nat.inj_succ. cbn [ce_k].
    change (skipn 1024 l) with (drop 1024 l). change (firstn 1024 l) with (take 1024 l).
    rewrite IH by lia. reflexivity.
Qed.

Lemma chunks_exact_of_ce_k l :
  chunks_exact_of rs_CHUNK_LEN l = ce_k (N.to_nat (len l / 1024)) l.
Proof.
  unfold chunks_exact_of. change (N.to_nat rs_CHUNK_LEN) with 1024%nat.
  apply chunks_exact_ce_k.
  unfold len. rewrite N2Nat.inj_div, Nat2N.id. change (N.to_nat 1024) with 1024%nat. lia.
Qed.

Lemma ce_k_spec : forall k l, 1024 * N.of_nat k <= len l ->
  length (fst (ce_k k l)) = k /\ snd (ce_k k l) = drop (1024 * N.of_nat k) l /\
  Forall (fun c => len c = 1024) (fst (ce_k k l)).
Proof.
  induction k as [|k IH]; intros l H.
  - cbn. repeat split. constructor.
  - cbn [ce_k]. destruct (ce_k k (drop 1024 l)) as [cs r] eqn:E.
    destruct (IH (drop 1024 l)) as (H1 & H2 & H3); [rewrite len_drop; lia|].
    rewrite E in *. cbn [fst snd] in *. repeat split.
    + cbn [length]. lia.
    + rewrite H2, drop_drop. f_equal. lia.
    + constructor; [rewrite len_take; lia|exact H3].
Qed.

(* ---- leaves: the chunk layer of the tree ----------------------------------------- *)
Fixpoint leaves_full (ctr : N) (cs : list (list N)) : list tree :=
  match cs with
  | [] => []
  | c :: tl => Leaf ctr c :: leaves_full (ctr + 1) tl
  end.

Definition leaves (ctr : N) (bytes : list N) : list tree :=
  let '(cs, rem) := ce_k (N.to_nat (len bytes / 1024)) bytes in
  leaves_full ctr cs ++ (if len rem =? 0 then [] else [Leaf (ctr + N.of_nat (length cs)) rem]).

Lemma leaves_full_length ctr cs : length (leaves_full ctr cs) = length cs.
Proof. revert ctr. induction cs as [|c cs IH]; intros; [reflexivity|]. cbn. rewrite IH. reflexivity. Qed.

Lemma leaves_full_app ctr a b :
  leaves_full ctr (a ++ b) = leaves_full ctr a ++ leaves_full (ctr + N.of_nat (length a)) b.
Proof.
  revert ctr. induction a as [|x a IH]; intros ctr.
  - cbn [app leaves_full length]. replace (ctr + N.of_nat 0) with ctr by lia. reflexivity.
  - cbn [app leaves_full length]. rewrite IH. f_equal. f_equal. f_equal. lia.
Qed.

Lemma leaves_length ctr bytes : N.of_nat (length (leaves ctr bytes)) = chunks (len bytes).
Proof.
  unfold leaves. set (k := N.to_nat (len bytes / 1024)).
  destruct (ce_k_spec k bytes) as (H1 & H2 & _); [unfold k; lia|].
  destruct (ce_k k bytes) as [cs r]. cbn [fst snd] in *.
  rewrite app_length, leaves_full_length, H1, H2, len_drop.
  unfold chunks, k. destruct (len bytes - 1024 * N.of_nat (N.to_nat (len bytes / 1024)) =? 0) eqn:E; cbn [length]; lia.
Qed.

Lemma ce_k_app : forall k a b, len a = 1024 * N.of_nat k ->
  forall j, ce_k (k + j) (a ++ b) = (fst (ce_k k a) ++ fst (ce_k j b), snd (ce_k j b)).
Proof.
  induction k as [|k IH]; intros a b Ha j.
  - assert (a = []) by (apply len_0_nil; lia). subst a. cbn [Nat.add app ce_k fst]. destruct (ce_k j b); reflexivity.
  - cbn [Nat.add ce_k].
    rewrite drop_app_le by lia. rewrite take_app_le by lia.
    rewrite (IH (drop 1024 a) b) by (rewrite len_drop; lia).
    destruct (ce_k k (drop 1024 a)) as [cs r]. reflexivity.
Qed.

Lemma leaves_app ctr a b m : len a = 1024 * m ->
  leaves ctr (a ++ b) = leaves ctr a ++ leaves (ctr + m) b.
Proof.
  intros Ha. unfold leaves.
  assert (Hq : len (a ++ b) / 1024 = m + len b / 1024).
  { rewrite len_app, Ha. replace (1024 * m + len b) with (len b + m * 1024) by lia.
    rewrite N.div_add by lia. lia. }
  rewrite Hq, N2Nat.inj_add.
  assert (Hqa : len a / 1024 = m) by (rewrite Ha; replace (1024 * m) with (m * 1024) by lia; apply N.div_mul; lia).
  rewrite Hqa.
  rewrite (ce_k_app (N.to_nat m) a b) by lia.
  destruct (ce_k_spec (N.to_nat m) a) as (H1 & H2 & _); [lia|].
  destruct (ce_k (N.to_nat m) a) as [csa ra]. destruct (ce_k (N.to_nat (len b / 1024)) b) as [csb rb].
  cbn [fst snd] in *.
  assert (Hra : len ra = 0) by (rewrite H2, len_drop; lia).
  rewrite Hra. cbn [N.eqb]. change (0 =? 0) with true. cbn iota. rewrite app_nil_r.
  rewrite leaves_full_app, app_length, H1, <- app_assoc.
  replace (ctr + N.of_nat (N.to_nat m)) with (ctr + m) by lia.
  replace (ctr + N.of_nat (N.to_nat m + length csb)) with (ctr + m + N.of_nat (length csb)) by lia.
  reflexivity.
Qed.

Lemma leaves_one ctr bytes : 0 < len bytes <= 1024 -> leaves ctr bytes = [Leaf ctr bytes].
Proof.
  intros H. unfold leaves. destruct (N.eq_dec (len bytes) 1024) as [E|E].
  - rewrite E. change (N.to_nat (1024 / 1024)) with 1%nat. cbn [ce_k].
    rewrite take_all by lia. rewrite drop_all by lia. cbn [leaves_full app len length N.eqb].
    change (N.of_nat 0 =? 0) with true. reflexivity.
  - replace (len bytes / 1024) with 0 by lia. change (N.to_nat 0) with 0%nat. cbn [ce_k leaves_full app length].
    replace (len bytes =? 0) with false by lia.
    replace (ctr + N.of_nat 0) with ctr by lia. reflexivity.
Qed.

Section WideProof.
  Variable c8 : list N -> list N -> N -> N -> N -> list N.
  Variable p : platform.
  Hypothesis POK : PlatformOK p.
  Hypothesis Hpcip : forall cv b bl c f, length cv = 8%nat -> length b = 64%nat ->
    Portable.compress_in_place cv b bl c f = c8 cv b bl c f.
  Hypothesis Hc8len : forall cv b bl c f, length cv = 8%nat -> length b = 64%nat ->
    length (c8 cv b bl c f) = 8%nat.
  Variables (K : list N) (F : N).
  Hypothesis HK : length K = 8%nat.

  Lemma Hcip : forall cv b bl c f, length cv = 8%nat -> length b = 64%nat ->
    p_compress_in_place p cv b bl c f = c8 cv b bl c f.
  Proof. intros. rewrite (ok_cip p POK). apply Hpcip; assumption. Qed.

  Notation tcv := (tree_cv c8 K F).

  (* ---- the leaves condense to the specification tree ------------------------------ *)
  Lemma leaves_cond : forall h ctr bytes,
    0 < len bytes -> len bytes <= 1024 * 2 ^ N.of_nat h ->
    Cond (leaves ctr bytes) (spec_tree h ctr bytes).
  Proof.
    induction h as [|h IH]; intros ctr bytes Hpos Hle.
    - change (2 ^ N.of_nat 0) with 1 in Hle. cbn [spec_tree]. rewrite leaves_one by lia. apply Cond_single.
    - cbn [spec_tree]. destruct (len bytes <=? 1024) eqn:E.
      + rewrite leaves_one by lia. apply Cond_single.
      + destruct (left_len_spec (len bytes) ltac:(lia)) as (a & Hl & Hlo & Hhi).
        rewrite Nat2N.inj_succ, N.pow_succ_r' in Hle.
        assert (Ha : 2 ^ a <= 2 ^ N.of_nat h).
        { assert (H : 2 ^ a < 2 ^ N.succ (N.of_nat h)) by (rewrite N.pow_succ_r'; lia).
          apply N.pow_lt_mono_r_iff in H; [|lia]. apply N.pow_le_mono_r; lia. }
        rewrite N.add_1_r, N.pow_succ_r' in Hhi.
        rewrite <- (take_drop (left_len (len bytes)) bytes) at 1.
        rewrite (leaves_app ctr _ _ (2 ^ a)) by (rewrite len_take; lia).
        rewrite Hl. replace (1024 * 2 ^ a / 1024) with (2 ^ a) by (rewrite N.mul_comm, N.div_mul; lia).
        apply (Cond_join (N.to_nat a)).
        * apply Nat2N.inj. rewrite leaves_length, len_take. unfold chunks.
          replace (N.min (1024 * 2 ^ a) (len bytes)) with (1024 * 2 ^ a) by lia.
          replace (1024 * 2 ^ a + 1023) with (1023 + 2 ^ a * 1024) by lia.
          rewrite N.div_add by lia. rewrite Nat2N.inj_pow, N2Nat.id. reflexivity.
        * assert (Hr : N.of_nat (length (leaves (ctr + 2 ^ a) (drop (1024 * 2 ^ a) bytes))) = chunks (len bytes - 1024 * 2 ^ a))
            by (rewrite leaves_length, len_drop; reflexivity).
          assert (Hp : N.of_nat (2 ^ N.to_nat a) = 2 ^ a) by (rewrite Nat2N.inj_pow, N2Nat.id; reflexivity).
          unfold chunks in Hr. pose proof (pow2_pos a). lia.
        * apply IH; rewrite len_take; lia.
        * apply IH; rewrite len_drop; lia.
  Qed.

  (* ---- well-formed outputs and trees: CVs have 32 bytes ----------------------------- *)
  Definition wf_output (o : output) : Prop := length (o_cv o) = 8%nat /\ length (o_block o) = 64%nat.

  Lemma wf_chaining_value o : wf_output o -> out_chaining_value p o = chaining_value c8 o.
  Proof. intros [H1 H2]. unfold out_chaining_value, chaining_value. rewrite Hcip by assumption. reflexivity. Qed.

  Lemma chaining_value_length o : wf_output o -> length (chaining_value c8 o) = 32%nat.
  Proof.
    intros [H1 H2]. unfold chaining_value. rewrite bytes_of_words_length, Hc8len by assumption. reflexivity.
  Qed.

  Lemma chunk_output_wf T bs : len bs <= 1024 -> wf_output (chunk_output c8 K F T bs).
  Proof.
    intros H. unfold chunk_output.
    set (nb := if len bs =? 0 then 0%nat else N.to_nat ((len bs - 1) / 64)).
    rewrite (chunk_go_cvfold c8 p Hcip Hc8len K F T HK nb 16).
    - unfold final, wf_output. cbn [o_cv o_block]. split.
      + apply (cvfold_len c8 p Hcip Hc8len K F T HK); [exact HK|]. unfold nb. destruct (len bs =? 0) eqn:E; lia.
      + assert (Hr : len (drop (64 * N.of_nat nb) bs) <= 64).
        { rewrite len_drop. unfold nb. destruct (len bs =? 0) eqn:E; lia. }
        pose proof (pad64_length _ Hr) as Hp. unfold len in Hp. lia.
    - unfold nb. destruct (len bs =? 0); lia.
    - unfold nb. destruct (len bs =? 0) eqn:E; lia.
    - unfold nb. destruct (len bs =? 0) eqn:E; lia.
  Qed.

  Fixpoint wf_tree (t : tree) : Prop :=
    match t with
    | Leaf _ b => len b <= 1024
    | Node l r => wf_tree l /\ wf_tree r
    end.

  Lemma tree_out_wf t : wf_tree t -> wf_output (tree_out c8 K F t).
  Proof.
    induction t as [c b|l IHl r IHr]; intros H.
    - apply chunk_output_wf. exact H.
    - destruct H as [Hl Hr]. cbn [tree_out]. split; [exact HK|].
      cbn [parent_output o_block]. rewrite app_length, !tree_cv_out.
      rewrite !chaining_value_length by auto. reflexivity.
  Qed.

  Lemma tcv_length t : wf_tree t -> length (tcv t) = 32%nat.
  Proof. intros H. rewrite tree_cv_out. apply chaining_value_length, tree_out_wf, H. Qed.

  Lemma pairT_wf : forall ts, Forall wf_tree ts -> Forall wf_tree (pairT ts).
  Proof.
    fix IH 1. intros [|a [|b tl]] H; [exact H|exact H|].
    inversion H as [|? ? Ha H']; subst. inversion H' as [|? ? Hb H'']; subst.
    cbn [pairT]. constructor; [split; assumption|apply IH; exact H''].
  Qed.

  Lemma leaves_full_wf ctr cs : Forall (fun c => len c = 1024) cs -> Forall wf_tree (leaves_full ctr cs).
  Proof.
    revert ctr. induction cs as [|c cs IH]; intros ctr H; [constructor|].
    inversion H; subst. cbn [leaves_full]. constructor; [cbn; lia|apply IH; assumption].
  Qed.

  Lemma leaves_wf ctr bytes : Forall wf_tree (leaves ctr bytes).
  Proof.
    unfold leaves. set (k := N.to_nat (len bytes / 1024)).
    destruct (ce_k_spec k bytes) as (H1 & H2 & H3); [unfold k; lia|].
    destruct (ce_k k bytes) as [cs r]. cbn [fst snd] in *.
    apply Forall_app. split; [apply leaves_full_wf; exact H3|].
    destruct (len r =? 0); constructor; [|constructor].
    cbn. rewrite H2, len_drop. unfold k. lia.
  Qed.

  (* ---- hash1 / hash_many of the portable kernel on chunks and on parent blocks ----- *)
  Lemma hash1_go_chunk : forall n fuel cv first input T bf,
    bf = N.lor F (start_flag first) ->
    (n < fuel)%nat -> length cv = 8%nat -> len input = 64 * (N.of_nat n + 1) ->
    hash1_go fuel cv input T F bf rs_flag_CHUNK_END =
    c8 (fst (cvfold c8 F T n cv first input)) (drop (64 * N.of_nat n) input) 64 T
       (N.lor (N.lor F (start_flag (snd (cvfold c8 F T n cv first input)))) CHUNK_END).
  Proof.
    induction n as [|n IH]; intros fuel cv first input T bf Hbf Hf Hcv Hl; subst bf.
    - destruct fuel as [|fuel]; [lia|]. cbn [hash1_go cvfold fst snd].
      change rs_BLOCK_LEN with 64. fold (len input).
      replace (len input <? 64) with false by lia. replace (len input =? 64) with true by lia.
      rewrite firstn_N, skipn_N. rewrite take_all by lia. rewrite drop_all by lia.
      rewrite Hpcip; [|exact Hcv|unfold len in Hl; lia].
      change (64 * N.of_nat 0) with 0. rewrite drop_0.
      destruct fuel; reflexivity.
    - destruct fuel as [|fuel]; [lia|]. cbn [hash1_go cvfold].
      change rs_BLOCK_LEN with 64. fold (len input).
      replace (len input <? 64) with false by lia. replace (len input =? 64) with false by lia.
      rewrite firstn_N, skipn_N.
      assert (Ht : length (take 64 input) = 64%nat) by (pose proof (len_take 64 input); unfold len in *; lia).
      rewrite Hpcip by assumption.
      rewrite (IH fuel _ false).
      2:{ symmetry; apply N.lor_0_r. }
      2:{ lia. }
      2:{ apply Hc8len; assumption. }
      2:{ rewrite len_drop; lia. }
      rewrite drop_drop. replace (64 + 64 * N.of_nat n) with (64 * N.of_nat (S n)) by lia. reflexivity.
  Qed.

  Lemma hash1_chunk T chunk : len chunk = 1024 ->
    hash1 chunk K T F rs_flag_CHUNK_START rs_flag_CHUNK_END = Ok (tcv (Leaf T chunk)).
  Proof.
    intros Hl. unfold hash1. change rs_BLOCK_LEN with 64. fold (len chunk).
    replace (len chunk mod 64 =? 0) with true by (rewrite Hl; reflexivity). cbn [check bind].
    f_equal. cbn [tree_cv]. unfold chaining_value, chunk_output. f_equal.
    rewrite (chunk_go_cvfold c8 p Hcip Hc8len K F T HK 15 16) by lia.
    change rs_flag_CHUNK_START with (start_flag true).
    rewrite (hash1_go_chunk 15 _ _ true) by (try reflexivity; try assumption; try lia; unfold len in Hl; lia).
    unfold final. cbn [o_cv o_block o_blen o_ctr o_flags].
    rewrite pad64_full by (rewrite len_drop; lia). rewrite len_drop.
    repeat f_equal. lia.
  Qed.

  Lemma hash_many_chunks : forall cs ctr, Forall (fun c => len c = 1024) cs ->
    ctr + N.of_nat (length cs) < 2 ^ 64 ->
    hash_many_go cs K ctr true F rs_flag_CHUNK_START rs_flag_CHUNK_END = Ok (map tcv (leaves_full ctr cs)).
  Proof.
    induction cs as [|c cs IH]; intros ctr H Hc; [reflexivity|].
    inversion H as [|? ? Hlen H']; subst. cbn [hash_many_go leaves_full map].
    rewrite hash1_chunk by exact Hlen. cbn [bind].
    unfold mi_add, fits. cbn [length] in Hc.
    replace (ctr + 1 <? 2 ^ 64) with true by lia. cbn [bind].
    rewrite IH by (try assumption; lia). reflexivity.
  Qed.

  Lemma hash1_parent l r : length l = 32%nat -> length r = 32%nat ->
    hash1 (l ++ r) K 0 (N.lor F rs_flag_PARENT) 0 0 = Ok (chaining_value c8 (parent_output K F l r)).
  Proof.
    intros Hl Hr. unfold hash1. change rs_BLOCK_LEN with 64. rewrite app_length, Hl, Hr.
    change (N.of_nat (32 + 32) mod 64 =? 0) with true. cbn [check bind].
    change (S (Nat.div (32 + 32) 64)) with 2%nat. cbn [hash1_go]. rewrite app_length, Hl, Hr.
    change rs_BLOCK_LEN with 64. change (N.of_nat (32 + 32) <? 64) with false.
    change (N.of_nat (32 + 32) =? 64) with true. cbn iota.
    rewrite firstn_all2 by (rewrite app_length; lia).
    rewrite skipn_all2 by (rewrite app_length; lia). cbn [length].
    change (N.of_nat 0 <? 64) with true. cbn iota.
    rewrite Hpcip by (try exact HK; rewrite app_length; lia).
    unfold chaining_value, parent_output. cbn [o_cv o_block o_blen o_ctr o_flags].
    rewrite !N.lor_0_r. reflexivity.
  Qed.

  (* one layer of parents over a list of trees *)
  Lemma parents_layer : forall ts, Forall wf_tree ts ->
    let '(ps, odd) := pair_blocks (map tcv ts) in
    exists outs, hash_many_go ps K 0 false (N.lor F rs_flag_PARENT) 0 0 = Ok outs /\
                 outs ++ (match odd with Some cv => [cv] | None => [] end) = map tcv (pairT ts) /\
                 length ps = Nat.div (length ts) 2 /\
                 length ts = (2 * length ps + match odd with Some _ => 1 | None => 0 end)%nat.
  Proof.
    fix IH 1. intros [|a [|b tl]] H.
    - cbn. exists []. auto.
    - cbn. exists []. auto.
    - inversion H as [|? ? Ha H']; subst. inversion H' as [|? ? Hb H'']; subst.
      cbn [map pair_blocks]. specialize (IH tl H'').
      destruct (pair_blocks (map tcv tl)) as [ps odd].
      destruct IH as (outs & Hrun & Hout & Hlen & Hpar).
      cbn [hash_many_go]. rewrite hash1_parent by (apply tcv_length; assumption). cbn [bind].
      rewrite Hrun. cbn [bind]. eexists. split; [reflexivity|]. split; [|split].
      + cbn [pairT map app tree_cv]. rewrite <- Hout. reflexivity.
      + cbn [length]. rewrite Hlen.
        replace (S (S (length tl))) with (length tl + 1 * 2)%nat by lia.
        rewrite Nat.div_add by lia. lia.
      + cbn [length]. lia.
  Qed.

  (* ---- degrees ---------------------------------------------------------------------- *)
  Lemma pow2_le16 d : is_pow2 d = true -> d <= 16 -> exists j, d = 2 ^ j /\ j <= 4 /\ MachInt.popcount d = 1.
  Proof.
    intros H1 H2.
    assert (Hs : forallb (fun d => negb (is_pow2 d) ||
                  existsb (fun j => (d =? 2 ^ j) && (MachInt.popcount d =? 1)) [0;1;2;3;4])
                  (map N.of_nat (seq 0 17)) = true) by (vm_compute; reflexivity).
    rewrite forallb_forall in Hs. specialize (Hs d).
    rewrite H1 in Hs. cbn [negb orb] in Hs.
    assert (Hin : In d (map N.of_nat (seq 0 17))).
    { apply in_map_iff. exists (N.to_nat d). split; [lia|]. apply in_seq. lia. }
    specialize (Hs Hin). apply existsb_exists in Hs. destruct Hs as (j & Hj & Hd).
    apply andb_true_iff in Hd. destruct Hd as [Hd Hp]. exists j. repeat split; try lia.
    cbn in Hj. lia.
  Qed.

  Definition dD : N := N.max (p_degree p) 2.

  Lemma degree_facts :
    exists j, p_degree p = 2 ^ j /\ MachInt.popcount (p_degree p) = 1 /\ 1 <= p_degree p /\
              exists j2, dD = 2 ^ j2 /\ 1 <= j2 /\ dD <= max_degree_or_2 p /\
              exists j3, max_degree_or_2 p = 2 ^ j3 /\ 1 <= j3 /\ p_degree p <= p_max_degree p.
  Proof.
    destruct (pow2_le16 (p_degree p) (ok_degree_pow2 p POK)) as (j & Hj & Hj4 & Hpc).
    { pose proof (ok_degree_le p POK). pose proof (ok_max_le p POK). lia. }
    destruct (pow2_le16 (p_max_degree p) (ok_max_pow2 p POK) (ok_max_le p POK)) as (jm & Hjm & _ & _).
    pose proof (ok_degree_le p POK) as Hle.
    exists j. split; [exact Hj|]. split; [exact Hpc|]. split; [rewrite Hj; pose proof (pow2_pos j); lia|].
    unfold dD, max_degree_or_2.
    destruct (N.eq_dec j 0) as [->|Hj0].
    - exists 1. rewrite Hj. change (2 ^ 0) with 1. change (N.max 1 2) with 2. change (2 ^ 1) with 2.
      split; [reflexivity|]. split; [lia|]. split; [lia|].
      destruct (N.eq_dec jm 0) as [->|Hm0].
      + exists 1. rewrite Hjm. change (2 ^ 0) with 1. change (N.max 1 2) with 2. split; [reflexivity|]. lia.
      + exists jm. rewrite Hjm.
        assert (2 ^ 1 <= 2 ^ jm) by (apply N.pow_le_mono_r; lia). change (2 ^ 1) with 2 in *.
        split; [lia|]. lia.
    - exists j. assert (H2 : 2 ^ 1 <= 2 ^ j) by (apply N.pow_le_mono_r; lia). change (2 ^ 1) with 2 in H2.
      rewrite Hj. split; [lia|]. split; [lia|]. split; [rewrite <- Hj; lia|].
      exists jm. rewrite Hjm. rewrite Hj, Hjm in Hle. split; [lia|]. split; [|lia].
      destruct (N.eq_dec jm 0) as [->|]; [change (2 ^ 0) with 1 in Hle; lia|lia].
  Qed.

  (* ---- compress_chunks_parallel ----------------------------------------------------- *)
  Lemma ccp_spec input ctr cap :
    0 < len input -> len input <= p_max_degree p * 1024 -> ctr + chunks (len input) < 2 ^ 64 ->
    chunks (len input) <= cap ->
    compress_chunks_parallel p input K ctr F cap = Ok (map tcv (leaves ctr input)).
  Proof.
    intros Hpos Hmax Hctr Hcap. unfold compress_chunks_parallel, leaves.
    rewrite (chunks_exact_of_ce_k input).
    unfold nlen. fold (len input). change rs_CHUNK_LEN with 1024.
    replace (len input =? 0) with false by lia. cbn [negb check bind].
    replace (len input <=? p_max_degree p * 1024) with true by lia. cbn [check bind].
    set (k := N.to_nat (len input / 1024)).
    destruct (ce_k_spec k input) as (H1 & H2 & H3); [unfold k; lia|].
    destruct (ce_k k input) as [cs rem]. cbn [fst snd] in *.
    unfold nlen_l. rewrite H1.
    assert (Hk : N.of_nat k <= chunks (len input)) by (unfold k, chunks; lia).
    replace (N.of_nat k <=? p_max_degree p) with true by (unfold k; lia). cbn [check bind].
    rewrite (ok_hm p POK) by (rewrite H1; lia).
    unfold hash_many. rewrite H1. replace (N.of_nat k <=? cap) with true by lia. cbn [check bind].
    rewrite hash_many_chunks by (try assumption; rewrite H1; lia). cbn [bind].
    fold (len rem). assert (Hrem : len rem = len input - 1024 * N.of_nat k) by (rewrite H2, len_drop; reflexivity).
    destruct (len rem =? 0) eqn:E; cbn [negb].
    - rewrite app_nil_r. reflexivity.
    - unfold mi_add, fits. replace (ctr + N.of_nat k <? 2 ^ 64) with true by (unfold chunks, k in *; lia).
      cbn [bind].
      destruct (cs_update_spec c8 p Hcip Hc8len K F (ctr + N.of_nat k) HK (cs_new K (ctr + N.of_nat k) F) [] rem)
        as (cs' & Hupd & HT).
      { apply (Tight_new c8 p Hcip Hc8len K F (ctr + N.of_nat k) HK). }
      { cbn [app]. unfold k in Hrem. lia. }
      rewrite Hupd. cbn [bind].
      replace (N.of_nat k + 1 <=? cap) with true by (unfold chunks, k in *; lia). cbn [check bind].
      rewrite map_app. cbn [map tree_cv]. f_equal. f_equal. f_equal.
      cbn [app] in HT.
      rewrite (cs_output_spec c8 p Hcip Hc8len K F (ctr + N.of_nat k) HK cs' rem HT).
      apply wf_chaining_value. apply chunk_output_wf. unfold k in Hrem. lia.
  Qed.

  (* ---- compress_parents_parallel ------------------------------------------------------ *)
  Lemma cpp_spec ts cap :
    Forall wf_tree ts -> 2 <= N.of_nat (length ts) <= 2 * max_degree_or_2 p ->
    (N.of_nat (length ts) + 1) / 2 <= cap ->
    compress_parents_parallel p (map tcv ts) K F cap = Ok (map tcv (pairT ts)).
  Proof.
    intros Hwf Hn Hcap. unfold compress_parents_parallel. rewrite map_length.
    replace (2 <=? N.of_nat (length ts)) with true by lia. cbn [check bind].
    replace (N.of_nat (length ts) <=? 2 * max_degree_or_2 p) with true by lia. cbn [check bind].
    pose proof (parents_layer ts Hwf) as HL.
    destruct (pair_blocks (map tcv ts)) as [ps odd].
    destruct HL as (outs & Hrun & Hout & Hlen & Hpar).
    assert (Hps : N.of_nat (length ps) = N.of_nat (length ts) / 2).
    { rewrite Hlen. rewrite Nat2N.inj_div. reflexivity. }
    replace (N.of_nat (length ps) <=? max_degree_or_2 p) with true by lia. cbn [check bind].
    rewrite (ok_hm p POK) by (rewrite two64; pose proof (ok_max_le p POK); unfold max_degree_or_2 in *; lia).
    unfold hash_many. replace (N.of_nat (length ps) <=? cap) with true by lia. cbn [check bind].
    rewrite Hrun. cbn [bind].
    destruct odd as [cv|].
    - replace (N.of_nat (length ps) + 1 <=? cap) with true by lia. cbn [check bind].
      rewrite <- Hout. reflexivity.
    - rewrite <- Hout, app_nil_r. reflexivity.
  Qed.

  (* ---- compress_subtree_wide ----------------------------------------------------------- *)
  Lemma chunks_pow2 k : chunks (1024 * 2 ^ k) = 2 ^ k.
  Proof.
    unfold chunks. replace (1024 * 2 ^ k + 1023) with (1023 + 2 ^ k * 1024) by lia.
    rewrite N.div_add by lia. reflexivity.
  Qed.

  Lemma pow2_lt_le a b : 2 ^ a < 2 * 2 ^ b -> 2 ^ a <= 2 ^ b.
  Proof.
    intros H. rewrite <- N.pow_succ_r' in H. apply N.pow_lt_mono_r_iff in H; [|lia].
    apply N.pow_le_mono_r; lia.
  Qed.

  Lemma pow2_even_N j : 1 <= j -> exists q, 2 ^ j = 2 * q /\ 1 <= q.
  Proof.
    intros H. exists (2 ^ (j - 1)). replace j with (N.succ (j - 1)) at 1 by lia.
    rewrite N.pow_succ_r'. split; [reflexivity|]. pose proof (pow2_pos (j - 1)). lia.
  Qed.

  Lemma wide_spec : forall fuel input ctr cap,
    0 < len input -> len input <= 1024 * 2 ^ N.of_nat fuel -> len input < 2 ^ 64 ->
    ctr + chunks (len input) < 2 ^ 64 ->
    N.min dD (chunks (len input)) <= cap ->
    exists ts, compress_subtree_wide fuel p input K ctr F cap = Ok (map tcv ts) /\
      Forall wf_tree ts /\ Cond ts (spec_tree fuel ctr input) /\
      1 <= N.of_nat (length ts) <= N.min dD (chunks (len input)) /\
      (2 <= chunks (len input) -> 2 <= N.of_nat (length ts)) /\
      (forall k, len input = 1024 * 2 ^ k -> dD <= 2 ^ k -> N.of_nat (length ts) = dD).
  Proof.
    destruct degree_facts as (j & Hdj & Hpc & Hd1 & j2 & HD & Hj2 & HDmax & j3 & Hm2 & Hj3 & Hdle).
    assert (HdD : p_degree p <= dD) by (unfold dD; lia).
    assert (HD2 : 2 <= dD) by (unfold dD; lia).
    induction fuel as [|fuel IH]; intros input ctr cap Hpos Hle H64 Hctr Hcap.
    - (* fuel 0: at most one chunk *)
      change (2 ^ N.of_nat 0) with 1 in Hle.
      assert (Hn : chunks (len input) = 1) by (unfold chunks; lia).
      cbn [compress_subtree_wide]. unfold nlen. fold (len input). change rs_CHUNK_LEN with 1024.
      replace (len input <=? p_degree p * 1024) with true by lia.
      rewrite ccp_spec by (try assumption; lia).
      exists (leaves ctr input). split; [reflexivity|]. split; [apply leaves_wf|].
      split; [apply (leaves_cond 0); [assumption|change (2 ^ N.of_nat 0) with 1; lia]|].
      rewrite leaves_length, Hn. split; [lia|]. split; [lia|].
      intros k Hk HDk. pose proof (pow2_pos k). rewrite Hk, chunks_pow2 in Hn. lia.
    - cbn [compress_subtree_wide]. unfold nlen. fold (len input). change rs_CHUNK_LEN with 1024.
      destruct (len input <=? p_degree p * 1024) eqn:Esmall.
      + (* at most `degree` chunks: one SIMD batch *)
        assert (Hn : chunks (len input) <= p_degree p) by (unfold chunks; lia).
        rewrite ccp_spec by (try assumption; unfold chunks in *; lia).
        exists (leaves ctr input). split; [reflexivity|]. split; [apply leaves_wf|].
        split; [apply leaves_cond; assumption|].
        rewrite leaves_length. split; [unfold chunks in *; lia|]. split; [lia|].
        intros k Hk HDk. rewrite Hk, chunks_pow2 in *. lia.
      + (* recursive case *)
        rewrite Hpc. change (1 =? 1) with true. cbn [check bind].
        replace (1024 <? len input) with true by lia. cbn [check bind].
        rewrite rs_left_subtree_len_spec by lia. cbn [bind].
        destruct (left_len_spec (len input) ltac:(lia)) as (a & Hl & Hlo & Hhi).
        rewrite Hl. rewrite N.add_1_r, N.pow_succ_r' in Hhi.
        rewrite Nat2N.inj_succ, N.pow_succ_r' in Hle.
        assert (Hafuel : 2 ^ a <= 2 ^ N.of_nat fuel) by (apply pow2_lt_le; lia).
        replace (1024 * 2 ^ a <=? len input) with true by lia. cbn [check bind].
        rewrite rs_right_chunk_counter_spec.
        2:{ lia. }
        2:{ replace (1024 * 2 ^ a / 1024) with (2 ^ a) by (rewrite N.mul_comm, N.div_mul; lia).
            unfold chunks in Hctr. lia. }
        replace (1024 * 2 ^ a / 1024) with (2 ^ a) by (rewrite N.mul_comm, N.div_mul; lia).
        cbn [bind]. rewrite !firstn_N, !skipn_N.
        set (L := take (1024 * 2 ^ a) input). set (R := drop (1024 * 2 ^ a) input).
        assert (HlenL : len L = 1024 * 2 ^ a) by (unfold L; rewrite len_take; lia).
        assert (HlenR : len R = len input - 1024 * 2 ^ a) by (unfold R; rewrite len_drop; lia).
        assert (Hda : p_degree p <= 2 ^ a).
        { rewrite Hdj. apply pow2_lt_le. rewrite <- Hdj. lia. }
        assert (HnR : 1 <= chunks (len R) <= 2 ^ a) by (unfold chunks; lia).
        assert (Hn : chunks (len input) = 2 ^ a + chunks (len R)).
        { unfold chunks. rewrite HlenR.
          replace (len input + 1023) with (len input - 1024 * 2 ^ a + 1023 + 2 ^ a * 1024) by lia.
          rewrite N.div_add by lia. lia. }
        assert (Hspec : spec_tree (S fuel) ctr input = Node (spec_tree fuel ctr L) (spec_tree fuel (ctr + 2 ^ a) R)).
        { cbn [spec_tree]. replace (len input <=? 1024) with false by lia. cbn zeta. rewrite Hl.
          replace (1024 * 2 ^ a / 1024) with (2 ^ a) by (rewrite N.mul_comm, N.div_mul; lia). reflexivity. }
        rewrite Hspec.
        destruct (1024 * 2 ^ a =? 1024) eqn:Ea.
        * (* the "simd_degree = 1 at the leaves" case: two chunks, returned unmerged *)
          assert (Ha0 : 2 ^ a = 1) by lia.
          assert (Hd : p_degree p = 1) by lia.
          rewrite Hd. change (1 =? 1) with true. cbn [check bind].
          replace (1 <=? 2 * max_degree_or_2 p) with true by lia. cbn [check bind].
          destruct (IH L ctr 1) as (tsl & Hrl & Hwl & Hcl & Hnl & _ & _); try lia;
            try (rewrite HlenL, chunks_pow2; lia).
          rewrite Hrl. cbn [bind].
          destruct (IH R (ctr + 2 ^ a) (2 * max_degree_or_2 p - 1)) as (tsr & Hrr & Hwr & Hcr & Hnr & _ & _); try lia.
          rewrite Hrr. cbn [bind]. rewrite !map_length.
          rewrite HlenL, chunks_pow2, Ha0 in Hnl.
          assert (Hl1 : N.of_nat (length tsl) = 1) by lia.
          assert (Hr1 : N.of_nat (length tsr) = 1) by lia.
          rewrite Hl1, Hr1. change (1 =? 1) with true. change ((1 <=? 1) && (1 <=? 1)) with true.
          cbn [check bind].
          replace (2 <=? cap) with true by lia. cbn [check bind].
          exists (tsl ++ tsr). split.
          { rewrite <- map_app. f_equal. apply firstn_all2. rewrite map_length, app_length. lia. }
          split; [apply Forall_app; split; assumption|].
          split; [apply (Cond_join 0); [cbn; lia|cbn; lia|assumption|assumption]|].
          rewrite app_length, Nat2N.inj_add, Hl1, Hr1.
          split; [lia|]. split; [lia|].
          intros k Hk HDk. rewrite Hk, chunks_pow2 in Hn. lia.
        * (* general case: one layer of parents over left ++ right *)
          assert (Ha1 : 2 <= 2 ^ a).
          { destruct (N.eq_dec a 0) as [->|Ha0]; [change (2 ^ 0) with 1 in Ea; lia|].
            assert (2 ^ 1 <= 2 ^ a) by (apply N.pow_le_mono_r; lia). change (2 ^ 1) with 2 in *. lia. }
          assert (HDa : dD <= 2 ^ a) by (unfold dD; lia).
          cbn [bind]. fold dD.
          replace (dD <=? 2 * max_degree_or_2 p) with true by lia. cbn [check bind].
          destruct (IH L ctr dD) as (tsl & Hrl & Hwl & Hcl & Hnl & _ & Hexl); try lia;
            try (rewrite HlenL, chunks_pow2; lia).
          rewrite Hrl. cbn [bind].
          destruct (IH R (ctr + 2 ^ a) (2 * max_degree_or_2 p - dD)) as (tsr & Hrr & Hwr & Hcr & Hnr & _ & Hexr); try lia.
          rewrite Hrr. cbn [bind]. rewrite !map_length.
          specialize (Hexl a HlenL HDa).
          rewrite Hexl. replace (dD =? dD) with true by lia. cbn [check bind].
          replace ((1 <=? N.of_nat (length tsr)) && (N.of_nat (length tsr) <=? dD)) with true by lia.
          cbn [check bind].
          replace (dD =? 1) with false by lia.
          rewrite <- map_app.
          destruct (pow2_even_N j2 Hj2) as (q & Hq & Hq1). rewrite <- HD in Hq.
          rewrite cpp_spec.
          2:{ apply Forall_app; split; assumption. }
          2:{ rewrite app_length, Nat2N.inj_add. lia. }
          2:{ rewrite app_length, Nat2N.inj_add. lia. }
          exists (pairT (tsl ++ tsr)). split; [reflexivity|].
          split; [apply pairT_wf, Forall_app; split; assumption|].
          assert (HCj : Cond (tsl ++ tsr) (Node (spec_tree fuel ctr L) (spec_tree fuel (ctr + 2 ^ a) R))).
          { apply (Cond_join (N.to_nat j2)); try assumption.
            - apply Nat2N.inj. rewrite Nat2N.inj_pow, N2Nat.id. lia.
            - assert (N.of_nat (2 ^ N.to_nat j2) = dD) by (rewrite Nat2N.inj_pow, N2Nat.id; lia). lia. }
          split; [apply Cond_pairT; [exact HCj|rewrite app_length, Nat2N.inj_add; lia]|].
          assert (Hlenp : N.of_nat (length (pairT (tsl ++ tsr))) = (dD + N.of_nat (length tsr) + 1) / 2).
          { rewrite pairT_length, app_length, Nat2N.inj_div, !Nat2N.inj_add, Hexl. reflexivity. }
          rewrite Hlenp. split; [lia|]. split; [lia|].
          intros k Hk HDk.
          assert (Hka : k = a + 1).
          { apply (pow2_unique k (a + 1) (2 * chunks (len input))).
            - rewrite Hk, chunks_pow2, N.add_1_r, N.pow_succ_r'. pose proof (pow2_pos k). lia.
            - rewrite Hn. rewrite !N.add_1_r, !N.pow_succ_r'.
              assert (chunks (len R) = 2 ^ a).
              { rewrite Hk, chunks_pow2 in Hn.
                assert (2 ^ a < 2 ^ k) by lia. apply N.pow_lt_mono_r_iff in H; [|lia].
                assert (2 ^ (a + 1) <= 2 ^ k) by (apply N.pow_le_mono_r; lia).
                rewrite N.add_1_r, N.pow_succ_r' in H0. lia. }
              lia. }
          subst k. rewrite N.add_1_r, N.pow_succ_r' in Hk.
          assert (HRk : len R = 1024 * 2 ^ a) by lia.
          specialize (Hexr a HRk HDa). rewrite Hexr. lia.
  Qed.

  (* ---- compress_subtree_to_parent_node -------------------------------------------------- *)
  Lemma condense_loop_spec : forall fuel ts t,
    Forall wf_tree ts -> Cond ts t ->
    2 <= N.of_nat (length ts) -> N.of_nat (length ts) <= 2 * 2 ^ N.of_nat fuel ->
    N.of_nat (length ts) <= max_degree_or_2 p ->
    exists ta tb, condense_loop fuel p (map tcv ts) K F = Ok [tcv ta; tcv tb] /\
                  t = Node ta tb /\ wf_tree ta /\ wf_tree tb.
  Proof.
    destruct degree_facts as (j & Hdj & Hpc & Hd1 & j2 & HD & Hj2 & HDmax & j3 & Hm2 & Hj3 & Hdle).
    destruct (pow2_even_N j3 Hj3) as (q & Hq & Hq1). rewrite <- Hm2 in Hq.
    induction fuel as [|fuel IH]; intros ts t Hwf HC Hlo Hhi Hmax.
    - change (2 ^ N.of_nat 0) with 1 in Hhi.
      destruct ts as [|ta [|tb [|? ?]]]; cbn [length] in *; try lia.
      cbn [condense_loop map length]. change (N.of_nat 2 <=? 2) with true. cbn iota.
      exists ta, tb. split; [reflexivity|].
      inversion Hwf as [|? ? Ha H']; subst. inversion H' as [|? ? Hb _]; subst.
      split; [|auto]. symmetry. apply (Cond_iter [ta; tb] t 1%nat); [exact HC|reflexivity].
    - cbn [condense_loop]. rewrite map_length.
      destruct (N.of_nat (length ts) <=? 2) eqn:E.
      + destruct ts as [|ta [|tb [|? ?]]]; cbn [length] in *; try lia.
        exists ta, tb. split; [reflexivity|].
        inversion Hwf as [|? ? Ha H']; subst. inversion H' as [|? ? Hb _]; subst.
        split; [|auto]. symmetry. apply (Cond_iter [ta; tb] t 1%nat); [exact HC|reflexivity].
      + rewrite cpp_spec by (try assumption; lia). cbn [bind].
        rewrite Nat2N.inj_succ, N.pow_succ_r' in Hhi.
        assert (Hlp : N.of_nat (length (pairT ts)) = (N.of_nat (length ts) + 1) / 2).
        { rewrite pairT_length, Nat2N.inj_div, Nat2N.inj_add. reflexivity. }
        apply IH.
        * apply pairT_wf, Hwf.
        * apply Cond_pairT; [exact HC|lia].
        * lia.
        * lia.
        * lia.
  Qed.

  Lemma to_parent_node_spec input ctr :
    1024 < len input -> len input < 2 ^ 64 -> ctr + chunks (len input) < 2 ^ 64 ->
    exists ta tb, compress_subtree_to_parent_node p input K ctr F = Ok (tcv ta ++ tcv tb) /\
                  spec_tree wide_fuel ctr input = Node ta tb /\ wf_tree ta /\ wf_tree tb.
  Proof.
    intros Hlo H64 Hctr.
    destruct degree_facts as (j & Hdj & Hpc & Hd1 & j2 & HD & Hj2 & HDmax & j3 & Hm2 & Hj3 & Hdle).
    unfold compress_subtree_to_parent_node. unfold nlen. fold (len input). change rs_CHUNK_LEN with 1024.
    replace (1024 <? len input) with true by lia. cbn [check bind].
    destruct (wide_spec wide_fuel input ctr (max_degree_or_2 p)) as (ts & Hrun & Hwf & HC & Hn & Hn2 & _); try lia.
    { change (N.of_nat wide_fuel) with 64. rewrite two64 in H64.
      change (1024 * 2 ^ 64) with 18889465931478580854784. lia. }
    rewrite Hrun. cbn [bind]. rewrite map_length.
    assert (Hc2 : 2 <= chunks (len input)) by (unfold chunks; lia).
    specialize (Hn2 Hc2).
    replace (2 <=? N.of_nat (length ts)) with true by lia. cbn [check bind].
    destruct (condense_loop_spec 8 ts _ Hwf HC) as (ta & tb & Hloop & Ht & Hwa & Hwb); try lia.
    { change (2 * 2 ^ N.of_nat 8) with 512. pose proof (ok_max_le p POK). unfold max_degree_or_2 in *. lia. }
    rewrite Hloop. cbn [bind]. exists ta, tb. auto.
  Qed.

  (* ---- hash_all_at_once ------------------------------------------------------------------ *)
  Theorem hash_all_at_once_spec input :
    len input < 2 ^ 64 ->
    hash_all_at_once p input K F = Ok (subtree_output c8 tree_height K F 0 input).
  Proof.
    intros H64. unfold hash_all_at_once. unfold nlen. fold (len input). change rs_CHUNK_LEN with 1024.
    destruct (len input <=? 1024) eqn:E.
    - destruct (cs_update_spec c8 p Hcip Hc8len K F 0 HK (cs_new K 0 F) [] input) as (cs' & Hupd & HT).
      { apply (Tight_new c8 p Hcip Hc8len K F 0 HK). }
      { cbn [app]. lia. }
      rewrite Hupd. cbn [bind]. cbn [app] in HT.
      rewrite (cs_output_spec c8 p Hcip Hc8len K F 0 HK cs' input HT).
      rewrite tree_height_S, subtree_output_unfold, E. reflexivity.
    - destruct (to_parent_node_spec input 0) as (ta & tb & Hrun & Ht & Hwa & Hwb); try lia.
      { rewrite two64 in *. unfold chunks. lia. }
      rewrite Hrun. cbn [bind]. rewrite subtree_output_tree.
      change tree_height with wide_fuel. rewrite Ht. reflexivity.
  Qed.

  Lemma subtree_output_root_wf input : len input < 2 ^ 64 ->
    wf_output (subtree_output c8 tree_height K F 0 input) /\ o_ctr (subtree_output c8 tree_height K F 0 input) = 0.
  Proof.
    intros H64. destruct (len input <=? 1024) eqn:E.
    - rewrite tree_height_S, subtree_output_unfold, E.
      split; [apply chunk_output_wf; lia|].
      unfold chunk_output.
      set (nb := if len input =? 0 then 0%nat else N.to_nat ((len input - 1) / 64)).
      rewrite (chunk_go_cvfold c8 p Hcip Hc8len K F 0 HK nb 16); [reflexivity| | |];
        unfold nb; destruct (len input =? 0) eqn:E0; lia.
    - destruct (to_parent_node_spec input 0) as (ta & tb & Hrun & Ht & Hwa & Hwb); try lia.
      { rewrite two64 in *. unfold chunks. lia. }
      rewrite subtree_output_tree. change tree_height with wide_fuel. rewrite Ht. cbn [tree_out].
      split; [|reflexivity]. split; [exact HK|].
      cbn [parent_output o_block]. rewrite app_length, !tcv_length by assumption. reflexivity.
  Qed.
End WideProof.
