(* C03: the OutputReader model refines (stream S, position p). *)
From V Require Import Proofs.ListP.
From V Require Import Base.Res Base.Word Base.MachInt gen.GenConsts gen.GenFormulas
  Spec.Compress Spec.Tree Spec.Blake3 Model.Portable Model.Platform Model.RsChunk Model.RsXof
  Proofs.PortableP Proofs.FormulasP Proofs.C01P.
Open Scope N_scope.

Definition wf_out (o : output) : Prop := length (o_cv o) = 8%nat /\ length (o_block o) = 64%nat.

(* the k-th root block; independent of the output's own counter field *)
Definition rblock (o : output) (k : N) : list N := root_block spec_c64 o k.

Lemma rblock_with_counter o c k : rblock (with_counter o c) k = rblock o k.
Proof. unfold rblock, root_block, with_counter. cbn [o_cv o_block o_blen o_flags]. reflexivity. Qed.

Lemma rblock_length o k : wf_out o -> length (rblock o k) = 64%nat.
Proof.
  intros [H1 H2]. unfold rblock, root_block, spec_c64.
  rewrite bytes_of_words_length, compress_length by assumption. reflexivity.
Qed.

(* ---- the stream, blockwise ------------------------------------------------------- *)
Lemma nrange_app a n m : nrange a (n + m) = nrange a n ++ nrange (a + N.of_nat n) m.
Proof.
  revert a. induction n as [|n IH]; intros a.
  - cbn [Nat.add nrange app]. replace (a + N.of_nat 0) with a by lia. reflexivity.
  - cbn [Nat.add nrange app]. rewrite IH.
    replace (a + N.of_nat (S n)) with (a + 1 + N.of_nat n) by lia. reflexivity.
Qed.

Lemma stream_app c64 o p n m :
  stream c64 o p (n + m) = stream c64 o p n ++ stream c64 o (p + N.of_nat n) m.
Proof. unfold stream. rewrite nrange_app, map_app. reflexivity. Qed.

Lemma nth_skipn {A} (l : list A) n i d : nth i (skipn n l) d = nth (n + i) l d.
Proof.
  revert l. induction n as [|n IH]; intros l; [reflexivity|].
  destruct l as [|x l]; [destruct i; reflexivity|]. cbn [skipn Nat.add nth]. apply IH.
Qed.

Lemma map_nth_range {A} (l : list A) d : forall n a, (a + n <= length l)%nat ->
  map (fun i => nth i l d) (seq a n) = firstn n (skipn a l).
Proof.
  induction n as [|n IH]; intros a H; [reflexivity|].
  cbn [seq map]. rewrite IH by lia.
  assert (Hs : skipn a l = nth a l d :: skipn (S a) l).
  { clear IH. revert a H. induction l as [|x l IHl]; intros a H; [cbn in H; lia|].
    destruct a as [|a]; [reflexivity|]. cbn [skipn nth]. apply IHl. cbn [length] in H. lia. }
  rewrite Hs. reflexivity.
Qed.

(* bytes [q, q+n) of block k, for q + n <= 64 *)
Lemma stream_in_block o k q n : wf_out o -> q + N.of_nat n <= 64 ->
  stream spec_c64 o (64 * k + q) n = firstn n (skipn (N.to_nat q) (rblock o k)).
Proof.
  intros Hwf Hq. unfold stream.
  rewrite <- (map_nth_range (rblock o k) 0 n (N.to_nat q)) by (rewrite rblock_length by exact Hwf; lia).
  assert (Hr : forall a m, a + N.of_nat m <= 64 ->
     map (stream_byte spec_c64 o) (nrange (64 * k + a) m) = map (fun i => nth i (rblock o k) 0) (seq (N.to_nat a) m)).
  { intros a m. revert a. induction m as [|m IHm]; intros a Ha; [reflexivity|].
    cbn [nrange seq map]. f_equal.
    - unfold stream_byte, rblock.
      replace ((64 * k + a) / 64) with k by lia. replace ((64 * k + a) mod 64) with a by lia. reflexivity.
    - replace (64 * k + a + 1) with (64 * k + (a + 1)) by lia.
      rewrite IHm by lia. f_equal. f_equal. lia. }
  apply Hr. exact Hq.
Qed.

Lemma stream_block o k : wf_out o -> stream spec_c64 o (64 * k) 64 = rblock o k.
Proof.
  intros Hwf. replace (64 * k) with (64 * k + 0) by lia.
  rewrite stream_in_block by (try assumption; lia).
  cbn [N.to_nat skipn]. change (N.to_nat 0) with 0%nat. cbn [skipn].
  apply firstn_all2. rewrite rblock_length by assumption. lia.
Qed.

Section Xof.
  Variable p : platform.
  Hypothesis POK : PlatformOK p.

  Lemma root_output_block_spec o : wf_out o ->
    out_root_output_block p o = rblock o (o_ctr o).
  Proof.
    intros [H1 H2]. unfold out_root_output_block, rblock, root_block.
    rewrite (ok_cx p POK). rewrite compress_xof_is_spec by assumption.
    change rs_flag_ROOT with ROOT. unfold spec_c64. reflexivity.
  Qed.

  (* reader state <-> (output, position) *)
  Definition Rd (r : reader) (o : output) (pos : N) : Prop :=
    wf_out o /\ r_out r = with_counter o (pos / 64) /\ r_pwb r = pos mod 64.

  Lemma Rd_new o : wf_out o -> o_ctr o = 0 -> Rd (reader_new o) o 0.
  Proof.
    intros Hwf Hc. split; [exact Hwf|]. split; [|reflexivity].
    unfold reader_new, with_counter. cbn [r_out]. change (0 / 64) with 0. rewrite <- Hc.
    destruct o; reflexivity.
  Qed.

  Lemma fill_one_block_spec r o pos n :
    Rd r o pos -> 0 < n -> pos + N.min n (64 - pos mod 64) <= 2 ^ 64 - 1 ->
    let take := N.min n (64 - pos mod 64) in
    exists r', fill_one_block p r n = Ok (r', stream spec_c64 o pos (N.to_nat take)) /\ Rd r' o (pos + take).
  Proof.
    intros (Hwf & Ho & Hp) Hn Hmax take. unfold fill_one_block.
    destruct r as [ro rp]. cbn [r_out r_pwb] in *. subst ro rp. rewrite root_output_block_spec by (destruct Hwf; split; assumption).
    cbn [with_counter o_ctr]. rewrite rblock_with_counter.
    unfold nlen. rewrite rblock_length by assumption. change (N.of_nat 64) with 64.
    replace (pos mod 64 <=? 64) with true by lia. cbn [check bind].
    rewrite skipn_length, rblock_length by assumption.
    replace (N.of_nat (64 - N.to_nat (pos mod 64))) with (64 - pos mod 64) by lia. fold take.
    unfold mi_add, fits. replace (pos mod 64 + take <? 2 ^ 8) with true by (change (2 ^ 8) with 256; unfold take; lia).
    cbn [bind]. change rs_BLOCK_LEN with 64.
    assert (Hs : stream spec_c64 o pos (N.to_nat take) =
                 firstn (N.to_nat take) (skipn (N.to_nat (pos mod 64)) (rblock o (pos / 64)))).
    { rewrite <- stream_in_block by (try assumption; unfold take; lia). f_equal. lia. }
    rewrite two64 in Hmax.
    destruct (pos mod 64 + take =? 64) eqn:E.
    - replace (pos / 64 + 1 <? 2 ^ 64) with true by (rewrite two64; lia). cbn [bind].
      eexists. split; [rewrite Hs; reflexivity|].
      split; [exact Hwf|]. cbn [r_out r_pwb with_counter o_cv o_block o_blen o_ctr o_flags].
      split; [unfold with_counter; f_equal; lia|lia].
    - eexists. split; [rewrite Hs; reflexivity|].
      split; [exact Hwf|]. cbn [r_out r_pwb]. unfold take in *. split; [unfold with_counter; f_equal; lia|lia].
  Qed.

  (* xof_many over whole blocks *)
  Lemma xof_loop_spec o : wf_out o -> forall n c fl,
    fl = N.lor (o_flags o) ROOT -> c + N.of_nat n <= 2 ^ 58 ->
    xof_many_loop compress_xof (o_cv o) (o_block o) (o_blen o) c fl n = Ok (stream spec_c64 o (64 * c) (64 * n)).
  Proof.
    intros Hwf n. induction n as [|n IH]; intros c fl Hfl Hc; [reflexivity|].
    cbn [xof_many_loop]. unfold mi_add, fits.
    change (2 ^ 58) with 288230376151711744 in Hc.
    replace (c + 1 <? 2 ^ 64) with true by (rewrite two64; lia). cbn [bind].
    rewrite IH by (try assumption; change (2 ^ 58) with 288230376151711744; lia). cbn [bind].
    replace (64 * S n)%nat with (64 + 64 * n)%nat by lia. rewrite stream_app.
    rewrite stream_block by assumption. f_equal. f_equal.
    - destruct Hwf as [H1 H2]. rewrite compress_xof_is_spec by assumption. subst fl.
      unfold rblock, root_block, spec_c64. reflexivity.
    - f_equal. lia.
  Qed.

  Theorem reader_fill_spec r o pos n :
    Rd r o pos -> pos + n <= 2 ^ 64 - 1 ->
    exists r', reader_fill p r n = Ok (r', stream spec_c64 o pos (N.to_nat n)) /\ Rd r' o (pos + n).
  Proof.
    intros HR Hmax. unfold reader_fill. rewrite two64 in Hmax.
    destruct (n =? 0) eqn:En.
    - exists r. replace n with 0 by lia. split; [reflexivity|]. replace (pos + 0) with pos by lia. exact HR.
    - (* head *)
      assert (Hhead : exists r1 a, (if negb (r_pwb r =? 0) then
                        '(r', bs) <- fill_one_block p r n ;; Ok (r', bs, n - nlen bs) else Ok (r, [], n))
                       = Ok (r1, stream spec_c64 o pos (N.to_nat a), n - a) /\ Rd r1 o (pos + a) /\ a <= n /\
                       (a < n -> (pos + a) mod 64 = 0)).
      { destruct HR as (Hwf & Ho & Hp). rewrite Hp. destruct (pos mod 64 =? 0) eqn:E0; cbn [negb].
        - exists r, 0. replace (pos + 0) with pos by lia. replace (n - 0) with n by lia.
          split; [reflexivity|]. split; [exact (conj Hwf (conj Ho Hp))|]. split; lia.
        - destruct (fill_one_block_spec r o pos n) as (r1 & Hf & HR1); [exact (conj Hwf (conj Ho Hp))|lia|rewrite two64; lia|].
          cbn zeta in Hf, HR1. set (a := N.min n (64 - pos mod 64)) in *.
          exists r1, a. rewrite Hf. cbn [bind]. unfold nlen. rewrite stream_length.
          replace (N.of_nat (N.to_nat a)) with a by lia.
          split; [reflexivity|]. split; [exact HR1|]. unfold a. split; lia. }
      destruct Hhead as (r1 & a & Hh & HR1 & Ha & Hal). rewrite Hh. cbn [bind]. clear Hh.
      set (n1 := n - a). change rs_BLOCK_LEN with 64.
      (* middle *)
      assert (Hmid : exists r2, (if 0 <? n1 / 64 then
                         assert! (r_pwb r1 =? 0) code 1500 ;;
                         bs <- p_xof_many p (o_cv (r_out r1)) (o_block (r_out r1)) (o_blen (r_out r1)) (o_ctr (r_out r1))
                                 (N.lor (o_flags (r_out r1)) rs_flag_ROOT) (n1 / 64) ;;
                         c <- mi_add 64 (o_ctr (r_out r1)) (n1 / 64) ;;
                         Ok (mkReader (with_counter (r_out r1) c) (r_pwb r1), bs, n1 - n1 / 64 * 64)
                       else Ok (r1, [], n1))
                      = Ok (r2, stream spec_c64 o (pos + a) (N.to_nat (n1 / 64 * 64)), n1 - n1 / 64 * 64) /\
                      Rd r2 o (pos + a + n1 / 64 * 64)).
      { destruct (0 <? n1 / 64) eqn:Eb.
        - assert (Han : a < n) by (unfold n1 in Eb; lia). specialize (Hal Han).
          destruct HR1 as (Hwf & Ho1 & Hp1). rewrite Hp1, Hal. change (0 =? 0) with true. cbn [check bind].
          rewrite Ho1. cbn [with_counter o_cv o_block o_blen o_ctr o_flags].
          rewrite (ok_xm p POK) by (rewrite two64; unfold n1; lia).
          unfold portable_xof_many.
          change rs_flag_ROOT with ROOT.
          rewrite (xof_loop_spec o Hwf) by (try reflexivity; change (2 ^ 58) with 288230376151711744; unfold n1; lia).
          cbn [bind]. unfold mi_add, fits.
          replace ((pos + a) / 64 + n1 / 64 <? 2 ^ 64) with true by (rewrite two64; unfold n1; lia). cbn [bind].
          eexists. split.
          + f_equal. f_equal. f_equal. f_equal; lia.
          + split; [exact Hwf|]. cbn [r_out r_pwb]. unfold with_counter. cbn [o_cv o_block o_blen o_ctr o_flags].
            split; [f_equal; lia|lia].
        - exists r1. replace (n1 / 64 * 64) with 0 by lia. change (N.to_nat 0) with 0%nat.
          replace (n1 - 0) with n1 by lia. replace (pos + a + 0) with (pos + a) by lia. split; [reflexivity|exact HR1]. }
      destruct Hmid as (r2 & Hm & HR2). rewrite Hm. cbn [bind]. clear Hm.
      set (b := n1 / 64 * 64) in *. set (n2 := n1 - b).
      assert (Hn2 : n2 < 64) by (unfold n2, b; lia).
      assert (Hsplit : stream spec_c64 o pos (N.to_nat n) =
                       stream spec_c64 o pos (N.to_nat a) ++ stream spec_c64 o (pos + a) (N.to_nat b)
                       ++ stream spec_c64 o (pos + a + b) (N.to_nat n2)).
      { replace (N.to_nat n) with (N.to_nat a + (N.to_nat b + N.to_nat n2))%nat by (unfold n2, b, n1 in *; lia).
        rewrite stream_app, stream_app. repeat f_equal; lia. }
      destruct (n2 =? 0) eqn:E2; cbn [negb].
      + exists r2. split.
        * f_equal. f_equal. rewrite Hsplit. replace n2 with 0 by lia. change (N.to_nat 0) with 0%nat.
          cbn [stream nrange map]. rewrite app_nil_r. reflexivity.
        * replace (pos + n) with (pos + a + b) by (unfold n2, b, n1 in *; lia). exact HR2.
      + replace (n2 <? 64) with true by lia. cbn [check bind].
        assert (Hal2 : (pos + a + b) mod 64 = 0).
        { destruct (N.eq_dec a n) as [->|Hne]; [unfold n2, b, n1 in *; lia|].
          specialize (Hal ltac:(lia)). unfold b. lia. }
        destruct (fill_one_block_spec r2 o (pos + a + b) n2 HR2) as (r3 & Hf & HR3); [lia| |].
        { rewrite two64. unfold n2, b, n1 in *. lia. }
        cbn zeta in Hf, HR3. rewrite Hal2 in Hf, HR3.
        replace (N.min n2 (64 - 0)) with n2 in Hf, HR3 by lia.
        rewrite Hf. cbn [bind]. unfold nlen. rewrite stream_length.
        replace (N.of_nat (N.to_nat n2) =? n2) with true by lia. cbn [check bind].
        exists r3. split; [rewrite Hsplit; reflexivity|].
        replace (pos + n) with (pos + a + b + n2) by (unfold n2, b, n1 in *; lia). exact HR3.
  Qed.

  (* ---- position / set_position / seek ------------------------------------------------ *)
  Lemma reader_position_spec r o pos : Rd r o pos -> pos <= 2 ^ 64 - 1 -> reader_position r = Ok pos.
  Proof.
    intros (Hwf & Ho & Hp) Hmax. rewrite two64 in Hmax. unfold reader_position, rs_position. rewrite Ho, Hp.
    cbn [with_counter o_ctr]. unfold mb, mu, mi_cast, mi_mul, mi_add, fits. cbn [bind].
    change rs_BLOCK_LEN with 64. rewrite !N.land_ones.
    change (64 mod 2 ^ 64) with 64.
    rewrite (N.mod_small (pos mod 64)) by (rewrite two64; lia).
    replace (pos / 64 * 64 <? 2 ^ 64) with true by (rewrite two64; lia). cbn [bind].
    replace (pos / 64 * 64 + pos mod 64 <? 2 ^ 64) with true by (rewrite two64; lia).
    f_equal. lia.
  Qed.

  Lemma reader_set_position_spec r o pos q : Rd r o pos -> q <= 2 ^ 64 - 1 ->
    exists r', reader_set_position r q = Ok r' /\ Rd r' o q.
  Proof.
    intros (Hwf & Ho & Hp) Hq. rewrite two64 in Hq.
    unfold reader_set_position, rs_set_position_pwb, rs_set_position_ctr.
    unfold mb, mu, mi_cast, mi_rem, mi_div. cbn [bind]. change rs_BLOCK_LEN with 64. rewrite !N.land_ones.
    change (64 mod 2 ^ 64) with 64. change (64 =? 0) with false. cbn iota. cbn [bind].
    eexists. split; [reflexivity|]. split; [exact Hwf|]. cbn [r_out r_pwb].
    rewrite Ho. unfold with_counter. cbn [o_cv o_block o_blen o_ctr o_flags]. split; [reflexivity|].
    rewrite N.land_ones. change (2 ^ 8) with 256. lia.
  Qed.

  (* Seek: End and negative targets fail and leave the reader unchanged; otherwise the new
     position is min(target, 2^64-1) *)
  Theorem reader_seek_spec r o pos s : Rd r o pos -> pos <= 2 ^ 64 - 1 ->
    match s with
    | SeekEnd _ => reader_seek r s = Ok (r, None)
    | SeekStart x => exists r', reader_seek r s = Ok (r', Some (N.min x (2 ^ 64 - 1))) /\ Rd r' o (N.min x (2 ^ 64 - 1))
    | SeekCurrent d =>
        if (Z.of_N pos + d <? 0)%Z then reader_seek r s = Ok (r, None)
        else let q := N.min (Z.to_N (Z.of_N pos + d)) (2 ^ 64 - 1) in
             exists r', reader_seek r s = Ok (r', Some q) /\ Rd r' o q
    end.
  Proof.
    intros HR Hpos. destruct s as [x|d|d]; [| |reflexivity].
    - cbn [reader_seek].
      replace (Z.to_N (Z.min (Z.of_N x) (Z.of_N (2 ^ 64 - 1)))) with (N.min x (2 ^ 64 - 1)) by lia.
      destruct (reader_set_position_spec r o pos (N.min x (2 ^ 64 - 1)) HR ltac:(lia)) as (r' & Hs & HR').
      rewrite Hs. cbn [bind]. rewrite (reader_position_spec r' o _ HR') by lia. cbn [bind]. eauto.
    - cbn [reader_seek]. rewrite (reader_position_spec r o pos HR Hpos). cbn [bind].
      destruct (Z.of_N pos + d <? 0)%Z eqn:E; [reflexivity|].
      replace (Z.to_N (Z.min (Z.of_N pos + d) (Z.of_N (2 ^ 64 - 1)))) with (N.min (Z.to_N (Z.of_N pos + d)) (2 ^ 64 - 1)) by lia.
      cbn zeta.
      destruct (reader_set_position_spec r o pos (N.min (Z.to_N (Z.of_N pos + d)) (2 ^ 64 - 1)) HR ltac:(lia)) as (r' & Hs & HR').
      rewrite Hs. cbn [bind]. rewrite (reader_position_spec r' o _ HR') by lia. cbn [bind]. eauto.
  Qed.
End Xof.

(* ---- any finite sequence of reader operations ------------------------------------------ *)
Inductive rop := RFill (n : N) | RRead (n : N) | RSetPos (q : N) | RSeek (s : seek_from) | RPos.
Inductive robs := RoBytes (b : list N) | RoRead (n : N) (b : list N) | RoNum (q : N) | RoErr | RoNone.

(* concrete step on the reader model *)
Definition rstep (p : platform) (r : reader) (o : rop) : res (reader * robs) :=
  match o with
  | RFill n => '(r', bs) <- reader_fill p r n ;; Ok (r', RoBytes bs)
  | RRead n => '(r', bs) <- reader_fill p r n ;; Ok (r', RoRead n bs)
  | RSetPos q => r' <- reader_set_position r q ;; Ok (r', RoNone)
  | RSeek s => '(r', x) <- reader_seek r s ;; Ok (r', match x with Some q => RoNum q | None => RoErr end)
  | RPos => q <- reader_position r ;; Ok (r, RoNum q)
  end.

Fixpoint rrun (p : platform) (r : reader) (ops : list rop) : res (list robs) :=
  match ops with
  | [] => Ok []
  | o :: tl => '(r', x) <- rstep p r o ;; rest <- rrun p r' tl ;; Ok (x :: rest)
  end.

(* abstract machine: a position into the stream S of the root output o *)
Definition max_pos : N := 2 ^ 64 - 1.
Definition astep (o : output) (pos : N) (op : rop) : option (N * robs) :=
  match op with
  | RFill n => if pos + n <=? max_pos then Some (pos + n, RoBytes (stream spec_c64 o pos (N.to_nat n))) else None
  | RRead n => if pos + n <=? max_pos then Some (pos + n, RoRead n (stream spec_c64 o pos (N.to_nat n))) else None
  | RSetPos q => if q <=? max_pos then Some (q, RoNone) else None
  | RSeek (SeekEnd _) => Some (pos, RoErr)
  | RSeek (SeekStart x) => Some (N.min x max_pos, RoNum (N.min x max_pos))
  | RSeek (SeekCurrent d) =>
      if (Z.of_N pos + d <? 0)%Z then Some (pos, RoErr)
      else let q := N.min (Z.to_N (Z.of_N pos + d)) max_pos in Some (q, RoNum q)
  | RPos => Some (pos, RoNum pos)
  end.

(* None = the sequence leaves the documented domain (a read beyond 2^64-1) *)
Fixpoint arun (o : output) (pos : N) (ops : list rop) : option (list robs) :=
  match ops with
  | [] => Some []
  | op :: tl =>
      match astep o pos op with
      | Some (pos', x) => match arun o pos' tl with Some rest => Some (x :: rest) | None => None end
      | None => None
      end
  end.

Lemma rstep_refines p : PlatformOK p -> forall op r o pos pos' x,
  Rd r o pos -> pos <= max_pos -> astep o pos op = Some (pos', x) ->
  exists r', rstep p r op = Ok (r', x) /\ Rd r' o pos' /\ pos' <= max_pos.
Proof.
  intros POK op r o pos pos' x HR Hpos Es.
  assert (Hmp : max_pos = 2 ^ 64 - 1) by reflexivity.
  destruct op as [n|n|q|s|]; cbn [astep rstep] in *.
  - destruct (pos + n <=? max_pos) eqn:E; [|discriminate]. inversion Es; subst pos' x.
    destruct (reader_fill_spec p POK r o pos n HR ltac:(lia)) as (r' & Hf & HR'). rewrite Hf. cbn [bind].
    exists r'. split; [reflexivity|]. split; [exact HR'|lia].
  - destruct (pos + n <=? max_pos) eqn:E; [|discriminate]. inversion Es; subst pos' x.
    destruct (reader_fill_spec p POK r o pos n HR ltac:(lia)) as (r' & Hf & HR'). rewrite Hf. cbn [bind].
    exists r'. split; [reflexivity|]. split; [exact HR'|lia].
  - destruct (q <=? max_pos) eqn:E; [|discriminate]. inversion Es; subst pos' x.
    destruct (reader_set_position_spec r o pos q HR ltac:(lia)) as (r' & Hs & HR'). rewrite Hs. cbn [bind].
    exists r'. split; [reflexivity|]. split; [exact HR'|lia].
  - pose proof (reader_seek_spec r o pos s HR ltac:(lia)) as Hsk. destruct s as [v|d|d]; cbn [astep] in Es.
    + inversion Es; subst pos' x. destruct Hsk as (r' & Hs & HR'). rewrite Hs. cbn [bind].
      exists r'. rewrite Hmp. split; [reflexivity|]. split; [exact HR'|lia].
    + destruct (Z.of_N pos + d <? 0)%Z eqn:E.
      * inversion Es; subst pos' x. rewrite Hsk. cbn [bind]. exists r. split; [reflexivity|]. split; [exact HR|lia].
      * inversion Es; subst pos' x. cbn zeta in Hsk. destruct Hsk as (r' & Hs & HR'). rewrite Hs. cbn [bind].
        exists r'. rewrite Hmp. split; [reflexivity|]. split; [exact HR'|lia].
    + inversion Es; subst pos' x. rewrite Hsk. cbn [bind]. exists r. split; [reflexivity|]. split; [exact HR|lia].
  - inversion Es; subst pos' x. rewrite (reader_position_spec r o pos HR ltac:(lia)). cbn [bind].
    exists r. split; [reflexivity|]. split; [exact HR|lia].
Qed.

Theorem reader_refines p : PlatformOK p -> forall ops r o pos obs,
  Rd r o pos -> pos <= max_pos -> arun o pos ops = Some obs -> rrun p r ops = Ok obs.
Proof.
  intros POK. induction ops as [|op ops IH]; intros r o pos obs HR Hpos Ha.
  - cbn in *. congruence.
  - cbn [arun rrun] in *. destruct (astep o pos op) as [[pos' x]|] eqn:Es; [|discriminate].
    destruct (arun o pos' ops) as [rest|] eqn:Er; [|discriminate]. inversion Ha; subst obs. clear Ha.
    destruct (rstep_refines p POK op r o pos pos' x HR Hpos Es) as (r' & Hs & HR' & Hp').
    rewrite Hs. cbn [bind]. rewrite (IH r' o pos' rest HR' Hp' Er). reflexivity.
Qed.
