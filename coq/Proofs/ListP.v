(* List and arithmetic helpers shared by the proofs. *)
From Coq Require Export NArith ZArith Arith List Bool Lia.
From Coq Require Export ZifyBool ZifyNat ZifyN.
From V Require Import Base.Res Base.Word Spec.Tree.
Export ListNotations.
Open Scope N_scope.

Ltac Zify.zify_post_hook ::= Z.div_mod_to_equations.

Arguments N.add : simpl never.
Arguments N.sub : simpl never.
Arguments N.mul : simpl never.
Arguments N.div : simpl never.
Arguments N.modulo : simpl never.
Arguments N.eqb : simpl never.
Arguments N.ltb : simpl never.
Arguments N.leb : simpl never.
Arguments N.pow : simpl never.
Arguments N.land : simpl never.
Arguments N.lor : simpl never.
Arguments N.of_nat : simpl never.
Arguments N.to_nat : simpl never.

Lemma len_app a b : len (a ++ b) = len a + len b.
Proof. unfold len. rewrite app_length. lia. Qed.

Lemma len_nil : len [] = 0.
Proof. reflexivity. Qed.

Lemma len_take n l : len (take n l) = N.min n (len l).
Proof. unfold len, take. rewrite firstn_length. lia. Qed.

Lemma len_drop n l : len (drop n l) = len l - n.
Proof. unfold len, drop. rewrite skipn_length. lia. Qed.

Lemma take_drop n l : take n l ++ drop n l = l.
Proof. apply firstn_skipn. Qed.

Lemma take_all n l : len l <= n -> take n l = l.
Proof. intros H. apply firstn_all2. unfold len in H. lia. Qed.

Lemma drop_all n l : len l <= n -> drop n l = [].
Proof. intros H. apply skipn_all2. unfold len in H. lia. Qed.

Lemma take_0 l : take 0 l = [].
Proof. reflexivity. Qed.

Lemma drop_0 l : drop 0 l = l.
Proof. reflexivity. Qed.

Lemma take_app_le n a b : n <= len a -> take n (a ++ b) = take n a.
Proof.
  intros H. unfold take, len in *. rewrite firstn_app.
  replace (N.to_nat n - length a)%nat with 0%nat by lia. rewrite firstn_O, app_nil_r. reflexivity.
Qed.

Lemma take_app_ge n a b : len a <= n -> take n (a ++ b) = a ++ take (n - len a) b.
Proof.
  intros H. unfold take, len in *. rewrite firstn_app.
  rewrite firstn_all2 by lia. f_equal. f_equal. lia.
Qed.

Lemma drop_app_le n a b : n <= len a -> drop n (a ++ b) = drop n a ++ b.
Proof.
  intros H. unfold drop, len in *. rewrite skipn_app.
  replace (N.to_nat n - length a)%nat with 0%nat by lia. reflexivity.
Qed.

Lemma drop_app_ge n a b : len a <= n -> drop n (a ++ b) = drop (n - len a) b.
Proof.
  intros H. unfold drop, len in *. rewrite skipn_app.
  rewrite skipn_all2 by lia. cbn [app]. f_equal. lia.
Qed.

Lemma skipn_skipn {A} (n m : nat) (l : list A) : skipn n (skipn m l) = skipn (m + n) l.
Proof.
  revert l. induction m as [|m IH]; intros l; [reflexivity|].
  destruct l as [|x l]; [destruct n; reflexivity|]. cbn [skipn Nat.add]. apply IH.
Qed.

Lemma drop_drop n m l : drop n (drop m l) = drop (m + n) l.
Proof.
  unfold drop. rewrite skipn_skipn. f_equal. lia.
Qed.

Lemma take_take n m l : take n (take m l) = take (N.min n m) l.
Proof.
  unfold take. rewrite firstn_firstn. f_equal. lia.
Qed.

Lemma take_drop_comm n m l : take n (drop m l) = drop m (take (m + n) l).
Proof.
  unfold take, drop. rewrite skipn_firstn_comm. f_equal. lia.
Qed.

Lemma len_0_nil l : len l = 0 -> l = [].
Proof. unfold len. destruct l; [reflexivity|cbn; lia]. Qed.

Lemma firstn_N n l : firstn (N.to_nat n) l = take n l.
Proof. reflexivity. Qed.
Lemma skipn_N n l : skipn (N.to_nat n) l = drop n l.
Proof. reflexivity. Qed.

Lemma pad64_length l : len l <= 64 -> len (pad64 l) = 64.
Proof. intros H. unfold pad64, len in *. rewrite app_length, repeat_length. lia. Qed.

Lemma pad64_full l : len l = 64 -> pad64 l = l.
Proof.
  intros H. unfold pad64, len in *. replace (64 - length l)%nat with 0%nat by lia.
  cbn. apply app_nil_r.
Qed.

Lemma repeat_app {A} (x : A) a b : repeat x (a + b) = repeat x a ++ repeat x b.
Proof. induction a; cbn; [reflexivity|]. f_equal. assumption. Qed.

Lemma skipn_repeat {A} (x : A) n m : skipn n (repeat x m) = repeat x (m - n).
Proof.
  revert m. induction n as [|n IH]; intros m.
  - rewrite Nat.sub_0_r. reflexivity.
  - destruct m as [|m]; [reflexivity|]. cbn [repeat skipn Nat.sub]. apply IH.
Qed.

Lemma firstn_repeat {A} (x : A) n m : firstn n (repeat x m) = repeat x (Nat.min n m).
Proof.
  revert m. induction n as [|n IH]; intros m; [reflexivity|].
  destruct m as [|m]; [reflexivity|]. cbn [repeat firstn Nat.min]. f_equal. apply IH.
Qed.
