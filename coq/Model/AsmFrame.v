(* C07: stack-frame and callee-saved-register discipline of the hand-written Unix assembly kernels.
   tools/gen_coq.py gen_asm_frames translates every function of c/blake3_{sse2,sse41,avx2,avx512}_x86-64_unix.S into a
   row of gen/GenAsmFrames.v: the prologue's pushes, the frame size N of `sub rsp, N` (and whether `and rsp, -64`
   realigns it), every rsp-based memory operand as (offset, width), the epilogue's pops, and the callee-saved
   general registers that occur as a destination operand.  This file holds the decidable discipline and the small
   machine it is about; Proofs/AsmFrameP.v proves that the discipline implies:
     - every rsp-based access lies in [rsp, rbp): above the stack pointer (never in the red zone) and below the
       saved registers and the return address, for EVERY incoming stack alignment;
     - on return every callee-saved general register holds the caller's value. *)
From Coq Require Import NArith List Bool.
Import ListNotations.
Open Scope N_scope.

Definition frow := (list N * bool * N * list N * list N * list (N * N) * list N)%type.
Definition f_name (r : frow) := let '(n, _, _, _, _, _, _) := r in n.
Definition f_realigned (r : frow) := let '(_, b, _, _, _, _, _) := r in b.
Definition f_frame (r : frow) := let '(_, _, n, _, _, _, _) := r in n.
Definition f_pushes (r : frow) := let '(_, _, _, p, _, _, _) := r in p.
Definition f_pops (r : frow) := let '(_, _, _, _, p, _, _) := r in p.
Definition f_accesses (r : frow) := let '(_, _, _, _, _, a, _) := r in a.
Definition f_written (r : frow) := let '(_, _, _, _, _, _, w) := r in w.

Definition mem (x : N) (l : list N) : bool := existsb (N.eqb x) l.
Fixpoint nodup (l : list N) : bool := match l with [] => true | x :: tl => negb (mem x tl) && nodup tl end.
Fixpoint list_eqb (a b : list N) : bool :=
  match a, b with [], [] => true | x :: a', y :: b' => (x =? y) && list_eqb a' b' | _, _ => false end.

Definition frame_ok (r : frow) : bool :=
  forallb (fun a => fst a + snd a <=? f_frame r) (f_accesses r) &&
  list_eqb (f_pops r) (rev (f_pushes r)) &&
  nodup (f_pushes r) &&
  forallb (fun w => mem w (f_pushes r)) (f_written r).

(* the stack pointer after the prologue: sp0 is rsp after the pushes (the value kept in rbp) *)
Definition frame_sp (realigned : bool) (sp0 n : N) : N :=
  if realigned then (sp0 - n) / 64 * 64 else sp0 - n.

(* registers as a function from register code to value; a push saves, a pop restores *)
Definition regs := N -> N.
Definition set_reg (rg : regs) (r v : N) : regs := fun x => if x =? r then v else rg x.
Fixpoint do_pushes (rg : regs) (ps : list N) (stack : list N) : list N :=
  match ps with [] => stack | r :: tl => do_pushes rg tl (rg r :: stack) end.
Fixpoint do_pops (rg : regs) (ps : list N) (stack : list N) : regs :=
  match ps with
  | [] => rg
  | r :: tl => match stack with v :: st => do_pops (set_reg rg r v) tl st | [] => rg end
  end.
