"""C15: the reference implementation and the published test vectors agree with the specification."""
from props.common import Rng, bspec, modes, number, hexspec, TEST_KEY, CONTEXTS, CHUNK
from props.hist import upd_size

RULE = ("`ref <mode> <out_len> <pieces>` cases: reference_impl::Hasher (new / new_keyed / new_derive_key, one update "
        "per piece, finalize into out_len bytes) against the extracted Coq model of reference_impl.rs. Pieces from the "
        "C02 boundary mixture (0; 1..64; around 64; around 1024; exact 2^k chunks; up to 40 chunks), out_len in "
        "{0,1,31,32,33,63,64,65,131,1000}, all three modes (several keys and contexts); the 35 published input "
        "lengths in all three modes with the published key and context, whole and split; exhaustive 2-splits of "
        "short lengths. Non-trivial = distinct case with at least two pieces and more than one chunk absorbed.")
MODELLED = ["&str context: the model takes the UTF-8 bytes (context.as_bytes())",
            "out_slice: the model returns the byte list instead of writing into a caller buffer"]
ASSUMPTIONS = ["total input below 2^64 bytes, out_len below 2^64"]
EXTRA_COQ_TARGETS = ["Proofs/TestVectorsP.vo", "Proofs/RefImplP.vo"]

OUT_LENS = [0, 1, 31, 32, 33, 63, 64, 65, 131, 1000]
TV_LENS = [0, 1, 2, 3, 4, 5, 6, 7, 8, 63, 64, 65, 127, 128, 129, 1023, 1024, 1025, 2048, 2049, 3072, 3073, 4096, 4097,
           5120, 5121, 6144, 6145, 7168, 7169, 8192, 8193, 16384, 31744, 102400]
TV_MODES = ["hash", "keyed=" + hexspec(TEST_KEY), "derive=" + hexspec(CONTEXTS[1])]


def ref_modes(rng):
    return [m for m in modes(rng) if not m.startswith("derivek=")]


def gen_cases(seed, tier):
    rng = Rng(seed)
    lines = []
    ms = ref_modes(rng)
    thorough = tier == "thorough"
    # 1. random update splits
    nrand = 600 if thorough else 150
    for k in range(nrand):
        m = "hash" if k % 4 == 0 else rng.choice(ms)
        npieces = rng.range(0, 12 if thorough else 8)
        budget = (64 if thorough else 24) * CHUNK
        pieces, spent = [], 0
        for _ in range(npieces):
            n = upd_size(rng, "portable", 40 if thorough else 12)
            if spent + n > budget:
                n = rng.range(0, 200)
            spent += n
            pieces.append(bspec(rng, n))
        lines.append(f"ref {m} {OUT_LENS[k % len(OUT_LENS)]} " + ",".join(pieces))
    # 2. the published test-vector inputs, whole and split in two / three pieces
    for li, n in enumerate(TV_LENS):
        if n > 40000 and not thorough:
            continue
        for mi, m in enumerate(TV_MODES):
            lines.append(f"ref {m} 131 paint/0/{n}")
            if n >= 2 and (thorough or (li + mi) % 3 == 0):
                a = rng.range(1, n - 1)
                lines.append(f"ref {m} 131 paint/0/{a},paint/{a % 251}/{n - a}")
                b = rng.range(0, n - a)
                lines.append(f"ref {m} {rng.choice(OUT_LENS)} paint/0/{a},paint/{a % 251}/{b},paint/{(a + b) % 251}/{n - a - b}")
    # 3. exhaustive 2-splits on short lengths and around the chunk boundaries
    lens = list(range(0, 131, 1 if thorough else 5)) + list(range(1022, 1028)) + list(range(2046, 2051)) + [3072, 4096, 4097]
    for li, total in enumerate(lens):
        m = TV_MODES[li % 3]
        cuts = range(0, total + 1) if total <= 130 else sorted(set(
            list(range(0, total + 1, 97)) + [1, 63, 64, 65, 1023, 1024, 1025, total - 1024, total - 1, total]))
        for c in cuts:
            if 0 <= c <= total:
                lines.append(f"ref {m} {OUT_LENS[(li + c) % len(OUT_LENS)]} paint/0/{c},paint/{c % 251}/{total - c}")
    return number(lines)


def nontrivial(rest, model_line):
    import re
    toks = rest.split()
    if len(toks) < 4:
        return False
    sizes = [int(x) for x in re.findall(r"\w+/\d+/(\d+)", toks[3])]
    return len(sizes) >= 2 and sum(sizes) > 1024


def correspondence(ctx):
    drv = ctx.need_model()
    cases = gen_cases(ctx.seed, ctx.tier)
    if drv:
        published_vectors(ctx, drv)
    builds = [("default", "debug")]
    if ctx.tier == "thorough":
        builds += [("default", "release")]
    for flavour, profile in builds:
        b = ctx.need_harness(flavour, profile)
        ctx.correspond("reference_impl", cases, drv, b, profile=profile, build=flavour, nontrivial=nontrivial)


def published_vectors(ctx, drv):
    """every published vector of test_vectors/test_vectors.json (as it is in the working tree NOW) against the extracted
    model of the reference implementation (= the specification, C15_ref_refines): names the failing vector when the
    in-kernel theorem of Proofs/TV*.v no longer checks"""
    import json
    import os
    import verif
    try:
        js = json.load(open(os.path.join(verif.REPO, "test_vectors", "test_vectors.json")))
    except Exception as e:            # unreadable JSON: the translator has already reported the anchor
        ctx.broken.append("test_vectors.json unreadable: %s" % e)
        return
    key, context = js["key"].encode(), js["context_string"].encode()
    lines, meta = [], {}
    for ci, c in enumerate(js["cases"]):
        n = c["input_len"]
        for field, mode in (("hash", "hash"), ("keyed_hash", "keyed=" + hexspec(key)), ("derive_key", "derive=" + hexspec(context))):
            cid = "v%d_%s" % (ci, field)
            olen = len(c[field]) // 2
            lines.append("%s ref %s %d paint/0/%d" % (cid, mode, olen, n))
            meta[cid] = (n, field, c[field])
    res = verif.run_model(drv, lines)
    nfail = 0
    for line in lines:
        cid, rest = line.split(" ", 1)
        n, field, pub = meta[cid]
        got = res.get(cid, "MISSING").split()
        ctx.evaluations += 1
        want = "x" + pub
        if got[:1] != [want] and got[:1] != [pub]:
            nfail += 1
            g = got[0] if got else ""
            g = g[1:] if g.startswith("x") else g
            pos = next((i // 2 for i in range(0, min(len(g), len(pub)), 2) if g[i:i + 2] != pub[i:i + 2]), None)
            ctx.failures.append({"correspondence": "published test vectors vs specification",
                                 "case": "test_vectors.json input_len=%d field=%s (first differing output byte: %s); model case: %s" % (n, field, pos, rest),
                                 "model": g[:300], "impl": "published: " + pub[:300], "build": "test_vectors.json"})
    ctx.stats["published-vectors"] = {"cases": len(lines), "disagreements": nfail}
    ctx.log("published vectors vs model: %d values, %d disagreements" % (len(lines), nfail))


def classify(f):
    return None
