(* C08: compress_subtree_wide::<J> under an ARBITRARY join schedule.
   J::join(|| left half, || right half) runs the two recursive calls, each of which ends by
   writing its chaining values into its own half of THIS node's cv_array (left: slots
   [0, degree), right: slots [degree, array_cap)).  A schedule assigns to every split node of
   the recursion an interleaving of the two halves' write events (a bit list consumed by
   `weave`: true = next event of the left half, false = next event of the right half; when the
   bits run out the rest is left-then-right) and, recursively, a schedule to each half.
   SerialJoin is the schedule "all left first"; every other J (RayonJoin, the scripted join of
   the verification hook) is some other schedule.  After both halves have finished (join is a
   barrier) the node reads the first left_n + right_n slots of the array.
   Same structure, asserts and codes as Model/RsWide.v compress_subtree_wide. *)
From Coq Require Import NArith List Bool.
From V Require Import Base.Res Base.Word Base.MachInt gen.GenConsts gen.GenFormulas
  Spec.Tree Model.Portable Model.Platform Model.RsChunk Model.RsWide Model.Concurrency.
Import ListNotations.
Open Scope N_scope.

Inductive sched := SLeaf | SNode (order : list bool) (l r : sched).

Definition sched_order (s : sched) : list bool := match s with SLeaf => [] | SNode o _ _ => o end.
Definition sched_left (s : sched) : sched := match s with SLeaf => SLeaf | SNode _ l _ => l end.
Definition sched_right (s : sched) : sched := match s with SLeaf => SLeaf | SNode _ _ r => r end.

Fixpoint weave {A} (order : list bool) (l r : list A) : list A :=
  match order with
  | [] => l ++ r
  | true :: o => match l with a :: l' => a :: weave o l' r | [] => r end
  | false :: o => match r with b :: r' => b :: weave o l r' | [] => l end
  end.

Fixpoint compress_subtree_wide_sched (fuel : nat) (p : platform) (s : sched) (input key : list N)
  (chunk_counter flags cap : N) : res (list (list N)) :=
  if nlen input <=? p_degree p * rs_CHUNK_LEN then
    compress_chunks_parallel p input key chunk_counter flags cap
  else match fuel with
  | O => OutOfFuel
  | S fuel' =>
      assert! (MachInt.popcount (p_degree p) =? 1) code 1204 ;;
      assert! (rs_CHUNK_LEN <? nlen input) code 1205 ;;
      left_len <- rs_left_subtree_len (nlen input) ;;
      assert! (left_len <=? nlen input) code 34 ;;
      let left := firstn (N.to_nat left_len) input in
      let right := skipn (N.to_nat left_len) input in
      right_counter <- rs_right_chunk_counter chunk_counter left_len ;;
      let array_cap := 2 * max_degree_or_2 p in
      degree <- (if left_len =? rs_CHUNK_LEN then
                   assert! (p_degree p =? 1) code 1206 ;; Ok 1
                 else Ok (N.max (p_degree p) 2)) ;;
      assert! (degree <=? array_cap) code 35 ;;
      (* J::join: both halves run (under their own schedules) ... *)
      lcvs <- compress_subtree_wide_sched fuel' p (sched_left s) left key chunk_counter flags degree ;;
      rcvs <- compress_subtree_wide_sched fuel' p (sched_right s) right key right_counter flags (array_cap - degree) ;;
      let left_n := N.of_nat (length lcvs) in
      let right_n := N.of_nat (length rcvs) in
      assert! (left_n =? degree) code 1207 ;;
      assert! ((1 <=? right_n) && (right_n <=? left_n)) code 1208 ;;
      (* ... and their writes reach this node's cv_array in the scheduled interleaving *)
      let m := weave (sched_order s) (events_from 0 lcvs) (events_from (N.to_nat degree) rcvs) in
      let children := split_node (N.to_nat array_cap) (N.to_nat degree) lcvs rcvs m in
      if left_n =? 1 then
        assert! (2 <=? cap) code 36 ;;
        Ok (firstn 2 children)
      else
        compress_parents_parallel p children key flags cap
  end.

Definition compress_subtree_to_parent_node_sched (p : platform) (s : sched) (input key : list N)
  (chunk_counter flags : N) : res (list N) :=
  assert! (rs_CHUNK_LEN <? nlen input) code 1209 ;;
  cvs <- compress_subtree_wide_sched wide_fuel p s input key chunk_counter flags (max_degree_or_2 p) ;;
  assert! (2 <=? N.of_nat (length cvs)) code 1210 ;;
  cvs <- condense_loop 8 p cvs key flags ;;
  match cvs with
  | [a; b] => Ok (a ++ b)
  | _ => Panic 1211
  end.

Definition hash_all_at_once_sched (p : platform) (s : sched) (input key : list N) (flags : N) : res output :=
  if nlen input <=? rs_CHUNK_LEN then
    cs <- cs_update p (cs_new key 0 flags) input ;;
    Ok (cs_output cs)
  else
    block <- compress_subtree_to_parent_node_sched p s input key 0 flags ;;
    Ok (mkOutput key block rs_BLOCK_LEN 0 (N.lor flags rs_flag_PARENT)).
