(* C06, part C: reset, derive-key agreement, zero-length calls, finalize is pure (see Proofs/CHasherP.v). *)
From V Require Import Proofs.ListP.
From V Require Import Base.Res Base.Word Base.MachInt gen.GenConsts gen.GenFormulas
  Spec.Compress Spec.Tree Spec.Blake3 Model.Portable Model.Platform Model.RsChunk Model.RsWide Model.RsXof Model.CHasher
  Proofs.PortableP Proofs.ChunkP Proofs.TreeP Proofs.FormulasP Proofs.WideP Proofs.C01P Proofs.XofP
  Proofs.StackArithP Proofs.CFormulasP Proofs.CHasherP.
Open Scope N_scope.

(* inversion of a successful bind without destructing the (reducible) scrutinee *)
Ltac inv_bind H x E ::= apply bind_Ok in H; destruct H as (x & E & H); cbn [bind] in H.

(* ================================ Part C ================================================ *)
Section Simple.
  Variable p : platform.

  (* ---- zero-length calls ------------------------------------------------------------------ *)
  Theorem c_update_zero h : c_hasher_update p h [] = Ok h.
  Proof. reflexivity. Qed.

  Theorem c_finalize_seek_zero h seek : c_hasher_finalize_seek p h seek 0 = Ok [].
  Proof. reflexivity. Qed.

  Theorem c_finalize_zero h : c_hasher_finalize p h 0 = Ok [].
  Proof. reflexivity. Qed.

  Theorem c_output_root_bytes_zero o seek : c_output_root_bytes p o seek 0 = Ok [].
  Proof. reflexivity. Qed.

  (* ---- key and flags never change ------------------------------------------------------------ *)
  Lemma c_fill_buf_fields cs input cs' t : c_cs_fill_buf cs input = Ok (cs', t) ->
    cs_flags cs' = cs_flags cs /\ cs_ctr cs' = cs_ctr cs.
  Proof.
    unfold c_cs_fill_buf. intros H. inv_bind H w Ew. cbn zeta in H. inv_check H E1. inv_bind H bl Eb.
    inversion H; subst. split; reflexivity.
  Qed.

  Lemma c_cs_update_loop_fields : forall fuel cs input cs' rest,
    c_cs_update_loop fuel p cs input = Ok (cs', rest) -> cs_flags cs' = cs_flags cs /\ cs_ctr cs' = cs_ctr cs.
  Proof.
    induction fuel as [|fuel IH]; intros cs input cs' rest H; cbn [c_cs_update_loop] in H.
    - destruct (nlen input <=? c_BLOCK_LEN); [inversion H; subst; auto|discriminate].
    - destruct (nlen input <=? c_BLOCK_LEN); [inversion H; subst; auto|].
      cbn zeta in H. inv_bind H bl Eb. apply IH in H. cbn [cs_flags cs_ctr] in H. exact H.
  Qed.

  Lemma c_cs_update_fields cs input cs' : c_cs_update p cs input = Ok cs' ->
    cs_flags cs' = cs_flags cs /\ cs_ctr cs' = cs_ctr cs.
  Proof.
    unfold c_cs_update. intros H. inv_bind H r1 E1. destruct r1 as [cs1 in1].
    assert (H1 : cs_flags cs1 = cs_flags cs /\ cs_ctr cs1 = cs_ctr cs).
    { destruct (0 <? cs_buf_len cs); [|inversion E1; subst; auto].
      inv_bind E1 r0 E0. destruct r0 as [cs0 t0]. apply c_fill_buf_fields in E0. cbn zeta in E1.
      destruct (0 <? nlen (skipn (N.to_nat t0) input)).
      - inv_bind E1 bl Eb. inversion E1; subst. cbn [cs_flags cs_ctr]. exact E0.
      - inversion E1; subst. exact E0. }
    inv_bind H r2 E2. destruct r2 as [cs2 in2]. apply c_cs_update_loop_fields in E2.
    inv_bind H r3 E3. destruct r3 as [cs3 t3]. apply c_fill_buf_fields in E3. inversion H; subst.
    destruct H1, E2, E3. split; congruence.
  Qed.

  Lemma upd_nth_length {A} (x : A) : forall l i, length (upd_nth i x l) = length l.
  Proof. induction l as [|y l IH]; intros [|i]; cbn [upd_nth length]; auto. Qed.

  Lemma c_merge_loop_fields : forall fuel h post h', c_merge_loop fuel p h post = Ok h' ->
    ch_key h' = ch_key h /\ ch_chunk h' = ch_chunk h /\ length (ch_stack h') = length (ch_stack h).
  Proof.
    induction fuel as [|fuel IH]; intros h post h' H; cbn [c_merge_loop] in H.
    - destruct (ch_stack_len h <=? post); [inversion H; subst; auto|discriminate].
    - destruct (ch_stack_len h <=? post); [inversion H; subst; auto|].
      inv_check H E1. cbn zeta in H. inv_check H E2. inv_bind H l' El. apply IH in H.
      cbn [ch_key ch_chunk ch_stack] in H. rewrite upd_nth_length in H. exact H.
  Qed.

  Lemma c_merge_cv_stack_fields h t h' : c_merge_cv_stack p h t = Ok h' ->
    ch_key h' = ch_key h /\ ch_chunk h' = ch_chunk h /\ length (ch_stack h') = length (ch_stack h).
  Proof.
    unfold c_merge_cv_stack, c_popcnt, mu, mi_popcount, mi_cast. cbn [bind]. intros H.
    apply c_merge_loop_fields in H. exact H.
  Qed.

  Lemma c_push_cv_fields h cv t h' : c_push_cv p h cv t = Ok h' ->
    ch_key h' = ch_key h /\ ch_chunk h' = ch_chunk h /\ length (ch_stack h') = length (ch_stack h).
  Proof.
    unfold c_push_cv. intros H. inv_bind H h1 E1. apply c_merge_cv_stack_fields in E1.
    inv_check H E2. inv_bind H l' El. inversion H; subst. cbn [ch_key ch_chunk ch_stack]. rewrite upd_nth_length. exact E1.
  Qed.

  Lemma c_update_loop_fields : forall fuel h input h' rest, c_update_loop fuel p h input = Ok (h', rest) ->
    ch_key h' = ch_key h /\ ch_flags h' = ch_flags h /\ length (ch_stack h') = length (ch_stack h).
  Proof.
    induction fuel as [|fuel IH]; intros h input h' rest H; cbn [c_update_loop] in H.
    - destruct (nlen input <=? c_CHUNK_LEN); [inversion H; subst; auto|discriminate].
    - destruct (nlen input <=? c_CHUNK_LEN); [inversion H; subst; auto|].
      cbn zeta in H. inv_bind H sl0 E0. inv_bind H csf E1. inv_bind H sl E2. inv_bind H sc E3. inv_check H E4.
      inv_bind H h1 E5.
      assert (Hh1 : ch_key h1 = ch_key h /\ ch_chunk h1 = ch_chunk h /\ length (ch_stack h1) = length (ch_stack h)).
      { destruct (sl <=? c_CHUNK_LEN).
        - inv_bind E5 cs1 Ec. apply c_push_cv_fields in E5. exact E5.
        - inv_bind E5 cvp Ep. inv_bind E5 h2 E6. apply c_push_cv_fields in E6. inv_bind E5 rc Er.
          apply c_push_cv_fields in E5. destruct E5 as (A1 & A2 & A3), E6 as (B1 & B2 & B3).
          repeat split; congruence. }
      inv_bind H c' Ec. apply IH in H. unfold ch_flags, ch_with_chunk in *. cbn [ch_key ch_chunk ch_stack cs_flags] in H.
      destruct H as (A1 & A2 & A3), Hh1 as (B1 & B2 & B3). repeat split; congruence.
  Qed.

  Theorem c_hasher_update_fields h input h' : c_hasher_update p h input = Ok h' ->
    ch_key h' = ch_key h /\ ch_flags h' = ch_flags h /\ length (ch_stack h') = length (ch_stack h).
  Proof.
    unfold c_hasher_update. intros H. destruct (nlen input =? 0); [inversion H; subst; auto|].
    inv_bind H clen Ecl. inv_bind H r Er. destruct r as [[h1 in1] done].
    assert (H1 : ch_key h1 = ch_key h /\ ch_flags h1 = ch_flags h /\ length (ch_stack h1) = length (ch_stack h)).
    { destruct (0 <? clen); [|inversion Er; subst; auto].
      inv_bind Er tk Et. cbn zeta in Er. inv_bind Er cs Ecs. apply c_cs_update_fields in Ecs. destruct Ecs as [F1 F2].
      destruct (0 <? nlen (skipn (N.to_nat (N.min tk (nlen input))) input)).
      - inv_bind Er h2 Ep. apply c_push_cv_fields in Ep. inv_bind Er c' Ec. inversion Er; subst.
        unfold ch_flags, ch_with_chunk, c_cs_reset in *. cbn [ch_key ch_chunk ch_stack cs_flags] in *.
        destruct Ep as (A1 & A2 & A3). repeat split; congruence.
      - inversion Er; subst. unfold ch_flags, ch_with_chunk. cbn [ch_key ch_chunk ch_stack]. auto. }
    destruct done; [inversion H; subst; exact H1|].
    inv_bind H r2 E2. destruct r2 as [h2 in2]. apply c_update_loop_fields in E2.
    destruct H1 as (A1 & A2 & A3), E2 as (B1 & B2 & B3).
    destruct (0 <? nlen in2); [|inversion H; subst; repeat split; congruence].
    inv_bind H cs Ecs. apply c_cs_update_fields in Ecs. destruct Ecs as [F1 F2].
    apply c_merge_cv_stack_fields in H. unfold ch_flags, ch_with_chunk in *. cbn [ch_key ch_chunk ch_stack] in H.
    destruct H as (C1 & C2 & C3). rewrite C2. repeat split; congruence.
  Qed.

  (* ---- reset ------------------------------------------------------------------------------------ *)
  (* states reachable from an initialised hasher by updates and resets *)
  Inductive c_reach (h0 : c_hasher) : c_hasher -> Prop :=
  | reach_init : c_reach h0 h0
  | reach_update h input h' : c_reach h0 h -> c_hasher_update p h input = Ok h' -> c_reach h0 h'
  | reach_reset h : c_reach h0 h -> c_reach h0 (c_hasher_reset h).

  Lemma c_reach_fields h0 h : c_reach h0 h ->
    ch_key h = ch_key h0 /\ ch_flags h = ch_flags h0 /\ length (ch_stack h) = length (ch_stack h0).
  Proof.
    induction 1 as [|h input h' _ IH Hu|h _ IH]; [auto| |].
    - apply c_hasher_update_fields in Hu. destruct IH as (A1 & A2 & A3), Hu as (B1 & B2 & B3). repeat split; congruence.
    - exact IH.
  Qed.

  (* reset = hasher_init_base with the same key and flags (on the memory the struct occupies) *)
  Theorem c_reset_is_init_base mem key flags h :
    c_reach (c_hasher_init_base mem key flags) h ->
    c_hasher_reset h = c_hasher_init_base (ch_stack h) key flags.
  Proof.
    intros HR. apply c_reach_fields in HR. destruct HR as (A1 & A2 & _).
    unfold c_hasher_reset, c_hasher_init_base, c_cs_reset, c_cs_init, ch_flags in *.
    cbn [ch_key ch_chunk cs_flags] in *. rewrite A1, A2. reflexivity.
  Qed.

  (* ---- the two derive-key initialisers ---------------------------------------------------------- *)
  Lemma c_strlen_prefix_spec ctx rest : Forall (fun b => b <> 0) ctx -> c_strlen_prefix (ctx ++ 0 :: rest) = Ok ctx.
  Proof.
    induction ctx as [|b ctx IH]; intros H; [reflexivity|].
    inversion H; subst. cbn [app c_strlen_prefix]. replace (b =? 0) with false by lia.
    rewrite IH by assumption. reflexivity.
  Qed.

  Theorem c_derive_key_agree mem ctx rest : Forall (fun b => b <> 0) ctx ->
    c_hasher_init_derive_key p mem (ctx ++ 0 :: rest) = c_hasher_init_derive_key_raw p mem ctx.
  Proof. intros H. unfold c_hasher_init_derive_key. rewrite c_strlen_prefix_spec by exact H. reflexivity. Qed.

  (* ---- finalize is a pure query --------------------------------------------------------------------- *)
  Lemma list_eqb_refl {A} (eqb : A -> A -> bool) : (forall x, eqb x x = true) -> forall l, list_eqb eqb l l = true.
  Proof. intros H. induction l as [|x l IH]; [reflexivity|]. cbn [list_eqb]. rewrite H, IH. reflexivity. Qed.

  Lemma c_hasher_eqb_refl h : c_hasher_eqb h h = true.
  Proof.
    unfold c_hasher_eqb, cs_eqb. rewrite !(list_eqb_refl N.eqb N.eqb_refl), !N.eqb_refl.
    rewrite (list_eqb_refl (list_eqb N.eqb) (list_eqb_refl N.eqb N.eqb_refl)). reflexivity.
  Qed.

  (* the machine's finalize steps leave every hasher as it was *)
  Theorem c_finalize_pure m st o st' obs :
    (exists i n, o = COpFinalize i n) \/ (exists i s n, o = COpFinalizeSeek i s n) \/ (exists i, o = COpFinalize0 i) ->
    c_step p m st o = Ok (st', obs) -> st' = st.
  Proof.
    intros [(i & n & ->)|[(i & s & n & ->)|(i & ->)]] H; cbn [c_step] in H.
    - inv_bind H h Eh. inv_bind H bs Eb. inversion H; reflexivity.
    - inv_bind H h Eh. inv_bind H bs Eb. inversion H; reflexivity.
    - inv_bind H h Eh. inv_bind H b1 E1. inv_bind H b2 E2. inversion H; reflexivity.
  Qed.

  (* what the harness observes: clone, finalize the original, memcmp original and clone *)
  Theorem c_clone_finalize_cmp m st i n h bs :
    c_get st i = Ok h -> c_hasher_finalize p h n = Ok bs ->
    c_run_ops p m st [COpClone i; COpFinalize i n; COpCmp i (length st)] [] = ([CObXof bs; CObSame true], Ok tt).
  Proof.
    intros Hg Hf. cbn [c_run_ops c_step]. rewrite Hg. cbn [bind rev app].
    assert (Hg1 : c_get (st ++ [h]) i = Ok h).
    { unfold c_get in *. destruct (nth_error st i) as [x|] eqn:E; [|discriminate].
      rewrite nth_error_app1 by (apply nth_error_Some; congruence). rewrite E. exact Hg. }
    assert (Hg2 : c_get (st ++ [h]) (length st) = Ok h).
    { unfold c_get. rewrite nth_error_app2 by lia. rewrite Nat.sub_diag. reflexivity. }
    rewrite Hg1. cbn [bind]. rewrite Hf. cbn [bind rev app]. rewrite Hg1, Hg2. cbn [bind rev app].
    rewrite c_hasher_eqb_refl. reflexivity.
  Qed.
End Simple.

