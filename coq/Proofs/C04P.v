(* C04: results do not depend on the platform record (SIMD level / kernels): every
   observation is equal to a specification value that does not mention the platform.
   C07: output footprints of the kernel models and of the reader. *)
From V Require Import Proofs.ListP.
From V Require Import Base.Res Base.Word Base.MachInt gen.GenConsts gen.GenFormulas
  Spec.Compress Spec.Tree Spec.Blake3 Model.Portable Model.Platform Model.RsChunk Model.RsWide
  Model.RsHasher Model.RsXof Model.RsIo Model.Machine
  Proofs.C01P Proofs.XofP Proofs.IoP Proofs.HasherP Proofs.C02P Proofs.C09P.
Open Scope N_scope.

Lemma hash_platform_independent p1 p2 input :
  PlatformOK p1 -> PlatformOK p2 -> len input < 2 ^ 64 -> rs_hash p1 input = rs_hash p2 input.
Proof. intros H1 H2 Hl. rewrite (rs_hash_spec p1 H1 input Hl), (rs_hash_spec p2 H2 input Hl). reflexivity. Qed.

Lemma keyed_hash_platform_independent p1 p2 key input :
  PlatformOK p1 -> PlatformOK p2 -> length key = 32%nat -> len input < 2 ^ 64 ->
  rs_keyed_hash p1 key input = rs_keyed_hash p2 key input.
Proof.
  intros H1 H2 Hk Hl. rewrite (rs_keyed_hash_spec p1 H1 key input Hk Hl), (rs_keyed_hash_spec p2 H2 key input Hk Hl). reflexivity.
Qed.

Lemma derive_key_platform_independent p1 p2 ctx material :
  PlatformOK p1 -> PlatformOK p2 -> len ctx < 2 ^ 64 -> len material < 2 ^ 64 ->
  rs_derive_key p1 ctx material = rs_derive_key p2 ctx material.
Proof.
  intros H1 H2 Hc Hm. rewrite (rs_derive_key_spec p1 H1 ctx material Hc Hm), (rs_derive_key_spec p2 H2 ctx material Hc Hm).
  reflexivity.
Qed.

(* call histories: two machines on different platforms, started from states that have absorbed the
   same bytes, produce identical observations *)
Lemma history_platform_independent p1 p2 K F pn1 pn2 m ops hs1 hs2 rs1 rs2 vs1 vs2 abs obs :
  PlatformOK p1 -> PlatformOK p2 -> length K = 8%nat ->
  Forall2 (InvS K F 0) hs1 abs -> Forall2 (InvS K F 0) hs2 abs -> arun_h K F abs ops = Some obs ->
  fst (run_ops p1 pn1 m K F (mkState hs1 rs1 vs1) (map hop_op ops) []) =
  fst (run_ops p2 pn2 m K F (mkState hs2 rs2 vs2) (map hop_op ops) []).
Proof.
  intros H1 H2 HK F1 F2 Ha.
  rewrite (history_refines p1 H1 K F HK pn1 m ops hs1 rs1 vs1 abs obs F1 Ha).
  rewrite (history_refines p2 H2 K F HK pn2 m ops hs2 rs2 vs2 abs obs F2 Ha). reflexivity.
Qed.

(* extended output *)
Lemma reader_platform_independent p1 p2 ops r1 r2 o pos obs :
  PlatformOK p1 -> PlatformOK p2 -> Rd r1 o pos -> Rd r2 o pos -> pos <= max_pos -> arun o pos ops = Some obs ->
  rrun p1 r1 ops = rrun p2 r2 ops.
Proof.
  intros H1 H2 R1 R2 Hp Ha.
  rewrite (reader_refines p1 H1 ops r1 o pos obs R1 Hp Ha), (reader_refines p2 H2 ops r2 o pos obs R2 Hp Ha). reflexivity.
Qed.

(* subtree chaining values *)
Lemma subtree_cv_platform_independent p1 p2 K F c0 pieces :
  PlatformOK p1 -> PlatformOK p2 -> length K = 8%nat ->
  c0 < 2 ^ 54 -> 0 < len (concat pieces) -> len (concat pieces) <= 1024 * lim_of c0 -> len (concat pieces) < 2 ^ 64 ->
  exists h1 h2 cv, updates p1 (fresh K F c0) pieces = Ok h1 /\ updates p2 (fresh K F c0) pieces = Ok h2 /\
                   finalize_non_root p1 h1 = Ok cv /\ finalize_non_root p2 h2 = Ok cv.
Proof.
  intros H1 H2 HK Hc Hpos Hlim H64.
  destruct (subtree_cv_spec p1 H1 K F HK c0 pieces Hc Hpos Hlim H64) as (h1 & U1 & F1).
  destruct (subtree_cv_spec p2 H2 K F HK c0 pieces Hc Hpos Hlim H64) as (h2 & U2 & F2).
  eauto 10.
Qed.

(* ---- C07: footprints --------------------------------------------------------------------------- *)
Lemma hash1_length input key ctr fl fs fe cv : hash1 input key ctr fl fs fe = Ok cv ->
  length cv = (4 * length (hash1_go (S (Nat.div (length input) 64)) key input ctr fl (N.lor fl fs) fe))%nat.
Proof.
  unfold hash1. destruct (N.of_nat (length input) mod rs_BLOCK_LEN =? 0); cbn [check bind]; [|discriminate].
  intros H. inversion H. apply bytes_of_words_length.
Qed.

(* hash_many writes exactly one CV per input: out[0 .. 32 * num_inputs) *)
Lemma hash_many_go_count : forall inputs key ctr incr fl fs fe outs,
  hash_many_go inputs key ctr incr fl fs fe = Ok outs -> length outs = length inputs.
Proof.
  induction inputs as [|x tl IH]; intros key ctr incr fl fs fe outs H.
  - cbn in H. inversion H. reflexivity.
  - cbn [hash_many_go] in H.
    destruct (hash1 x key ctr fl fs fe) as [cv| |]; cbn [bind] in H; try discriminate.
    destruct (if incr then mi_add 64 ctr 1 else Ok ctr) as [c'| |]; cbn [bind] in H; try discriminate.
    destruct (hash_many_go tl key c' incr fl fs fe) as [rest| |] eqn:E; cbn [bind] in H; try discriminate.
    inversion H. cbn [length]. f_equal. eapply IH. exact E.
Qed.

Lemma hash_many_footprint inputs key ctr incr fl fs fe cap outs :
  hash_many inputs key ctr incr fl fs fe cap = Ok outs ->
  length outs = length inputs /\ N.of_nat (length inputs) <= cap.
Proof.
  unfold hash_many. destruct (N.of_nat (length inputs) <=? cap) eqn:E; cbn [check bind]; [|discriminate].
  intros H. split; [eapply hash_many_go_count; exact H|lia].
Qed.

(* xof_many over the portable compress_xof writes exactly 64 * n bytes *)
Lemma xof_many_footprint cv block bl fl : length cv = 8%nat -> length block = 64%nat -> forall n ctr bs,
  xof_many_loop compress_xof cv block bl ctr fl n = Ok bs -> length bs = (64 * n)%nat.
Proof.
  intros Hcv Hb. induction n as [|n IH]; intros ctr bs H.
  - cbn in H. inversion H. reflexivity.
  - cbn [xof_many_loop] in H.
    destruct (mi_add 64 ctr 1) as [c'| |]; cbn [bind] in H; try discriminate.
    destruct (xof_many_loop compress_xof cv block bl c' fl n) as [rest| |] eqn:E; cbn [bind] in H; try discriminate.
    inversion H. rewrite app_length, (IH c' rest E).
    rewrite Proofs.PortableP.compress_xof_is_spec by assumption.
    rewrite bytes_of_words_length, Proofs.PortableP.compress_length by assumption. lia.
Qed.

(* fill writes exactly the n requested bytes *)
Lemma reader_fill_footprint p : PlatformOK p -> forall r o pos n,
  Rd r o pos -> pos + n <= 2 ^ 64 - 1 ->
  exists r' bs, reader_fill p r n = Ok (r', bs) /\ length bs = N.to_nat n.
Proof.
  intros POK r o pos n HR Hn. destruct (reader_fill_spec p POK r o pos n HR Hn) as (r' & Hf & _).
  exists r', (stream spec_c64 o pos (N.to_nat n)). split; [exact Hf|apply stream_length].
Qed.
