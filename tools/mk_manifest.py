#!/usr/bin/env python3
"""Regenerates MANIFEST.json from the table below (one entry per claimed property)."""
import json
import os
import subprocess

V = os.path.dirname(os.path.dirname(os.path.abspath(__file__)))
COMMON_NOTE = ("Trusted: Coq 8.16.1 kernel (+vm_compute for finite sweeps), no axioms (audited by Print Assumptions), "
               "Spec/ as a reading of the BLAKE3 paper, tools/gen_coq.py (constants+formulas translated from /repo on "
               "every run), extraction (ExtrOcamlBasic only) + OCaml driver, Rust harness built from /repo's working tree "
               "with --cfg blake3_team_blake3_verif. ")

CLAIMS = {
 "C01": ("Coq theorems (Props/C01.v): for every platform record satisfying PlatformOK (any SIMD degree 1..16) and every "
         "input below 2^64 bytes the executable model of hash/keyed_hash/derive_key (compress_subtree_wide recursion, "
         "parent layers, ChunkState, all asserts/indices/overflows explicit) returns Ok(spec value): no panic, exactly the "
         "specification's first 32 output bytes; the whole all-at-once path of src/lib.rs (compress_chunks_parallel, "
         "compress_parents_parallel, compress_subtree_wide, compress_subtree_to_parent_node, hash_all_at_once, hash, keyed_hash, "
         "derive_key) is TRANSLATED statement by statement (gen/GenLibWide.v) and proved equal to the model at every fuel, so the "
         "translated source text itself computes the specification (C01_lib_src_hash_spec and the keyed / derive variants). "
         "The model calls the repository's own constants and left_subtree_len "
         "formula (translated each run); model and real crate are run on the length lattice at every forced SIMD level.",
         "SIMD kernels are a platform record here (kernel equality is C05); CV arrays abstracted to lists of 32-byte CVs.",
         "Coq proof by induction over the tree (symbolic trees, compression-parametric) + translated formulas + model/implementation correspondence"),
 "C03": ("Coq theorems (Props/C03.v): OutputReader model refines (stream S, position p): fill/read return S[p..p+n) and "
         "advance to p+n for every n with p+n <= 2^64-1 and every alignment; set_position/position; seek errors leave the "
         "reader unchanged; any finite operation sequence equals the abstract machine (reader_refines). Position formulas "
         "are translated from the source. Correspondence on op sequences around 2^38, 2^63, 2^64-1 at every SIMD level.",
         "The root Output is any well-formed output (cv 8 words, block 64 bytes); that a Hasher's finalize_xof yields the "
         "spec root output is C02. xof_many AVX-512 kernel: platform record (C05).",
         "Coq proof (div/mod arithmetic + induction over op lists) + translated formulas + correspondence"),
 "C11": ("Coq theorems (Props/C11.v): copy_wide over ANY finite reader script (Ok(k), Interrupted, errors, Ok(0) in any order) "
         "feeds update exactly the delivered pieces, which form a prefix of the source in order; Interrupted never escapes; "
         "hard errors are returned; fuel always suffices; Write::write consumes all; mmap decision function for regular files "
         "(threshold/offset constants translated from src/io.rs). Correspondence: scripted Read impl replayed into the real "
         "update_reader (state compared by continuation) and real files around 16 KiB, /proc, /dev/null, directory, missing path.",
         "The reader/OS/mmap are oracles (partial: kernel and filesystem behaviour are assumptions, not modelled).",
         "Coq proof (induction over the reader script) + correspondence with scripted readers and real files"),
 "C14": ("Coq theorems (Props/C14.v) over the executable model of Hash::{to_hex,from_hex,from_slice,==}: round trip, exact accept "
         "set, totality (no panic), equality iff bytes equal, for all 2^256 hashes and all byte strings; tables/ranges translated "
         "from the source; every function of the Hash value type (as_bytes, from_bytes, as_slice, from_slice, to_hex, from_hex, the two From "
         "impls, FromStr, the three PartialEq impls, Display) is TRANSLATED function by function from src/lib.rs (gen/GenHashFns.v, "
         "tools/gen_coq_hash.py) and proved equal to the model for all inputs (C14_src_*), so the round trip holds of the translated text "
         "itself (C14_src_round_trip); byte-x-position exhaustive differential run against the real API.",
         "constant_time_eq and serde formats are modelled by contract, tied by runs only.",
         "Coq proof (induction + in-kernel 256-value sweeps) + function-level translation of the Hash impls proved equal to the model + correspondence"),
 "C16": ("Coq theorems (Props/C16.v): every trait op of the machine equals the inherent op(s) (resetting variants = finalize then "
         "reset; ExtendableOutput = finalize_xof then fill); guts::ChunkState/parent_cv return the spec chunk/parent chaining "
         "values and root hashes for every counter, every split of <= 1024 bytes. Correspondence: real trait methods (digest "
         "crate) vs inherent on mirrored instances, guts at counters 0..2^64-1.",
         "Trait glue of the digest crate is modelled as the bodies in src/traits.rs; guts root finalization only for chunk 0.",
         "Coq proof (definitional refinement + chunk lemma) + correspondence"),
 "C17": ("Coq theorems (Props/C17.v): the Debug string builders depend only on flags/platform/count/counter/position; after "
         "zeroize every modelled field except platform is zero. Correspondence: real {:?} strings must equal the model's "
         "(built from public fields only) on states with varied secrets; after zeroize() every byte inside a field range "
         "(hook) of Hasher/OutputReader must be 0 and later behaviour must equal the all-zero state's. The struct field lists, the bodies "
         "of all five Zeroize impls and of the four hand-written Debug impls are TRANSLATED into data (gen/GenSecret.v; any statement other "
         "than `<field>.zeroize()` / one builder chain is an anchor error) with theorems C17_src_*: every declared field except `platform` is "
         "wiped exactly once, no secret-holding struct derives Debug, the builder chains print exactly the model's expressions.",
         "Partial: object layout, padding bytes and moved-from temporaries are outside the model (padding is not scanned).",
         "Coq proof on the model (non-interference by construction) + memory-scan correspondence"),
 "C13": ("Coq theorems (Props/C13.v): over strings as lists of Unicode scalars with byte lengths: print->parse round trip for "
         "both layouts and LF/CRLF/no terminator, exact result for any OS byte path, injectivity, totality (never a panic), "
         "success shape, every documented error class; the model is parametric in a two-bit configuration (code as it was / "
         "with the two repairs) and the check probes which one the code under test is; `_refuted` witnesses pin the two "
         "genuine defects found on the unchanged tree (now fixed). Correspondence: real parse_check_line/filepath_to_string "
         "through a probe binary on every single-scalar mutation of ~40 valid lines (110k cases). The checkfile functions of "
         "b3sum/src/main.rs (hex_half_byte, filepath_to_string, check_for_invalid_characters, unescape, split_untagged_check_line, "
         "split_tagged_check_line, parse_check_line) are TRANSLATED statement by statement (gen/GenB3sumFns.v, tools/gen_coq_b3sumfns.py, "
         "Rust string operations with byte offsets in Base/Str.v) and proved equal to the model result by result for every line "
         "(C13_src_*; C13_src_parse_check_line_total: the translated parser never panics).",
         "to_string_lossy and cfg!(windows) are parameters of the translation; clap/anyhow untouched. b3sum harness = include!(main.rs) with a wild shim and clap without wrap_help.",
         "Coq proof (string/UTF-8 model, induction) + statement-level translation of the parser proved equal to the model + exhaustive-mutation correspondence"),
 "C12": ("Coq theorems (Props/C12.v): printed digest = lowercase hex / raw of S[seek..seek+len] for seek+len <= 2^64-1; "
         "exit status 0 iff every line of every checkfile checks (any number of lines, saturating counter never wraps); every "
         "failing line is diagnosed and the loop continues. Correspondence: the real b3sum binary on generated trees, flag "
         "combinations, keys of length 0/31/32/33, checkfiles mixing good/stale/missing/malformed lines, LF/CRLF, --raw outputs of up to 14 KiB "
         "in the short-write layout of a line-buffered stdout. check_one_line, check_one_checkfile, write_hex_output, write_raw_output, "
         "hash_one_input and the closure body of main are TRANSLATED statement by statement from b3sum/src/main.rs (gen/GenB3sumFns2.v; file "
         "system, reader and arguments as Section variables, stdout/stderr as threaded byte lists) and proved equal to the model for all "
         "inputs (C12_src_*).",
         "Partial: clap argument handling, rayon pool set-up, process exit and the OS are not modelled.",
         "Coq proof on the model + statement-level translation of the b3sum functions proved equal to the model + binary-level correspondence"),
 "C15": ("Coq theorems (Props/C15.v): the reference-implementation model (compress with in-place permute, ChunkState, the "
         "54-entry CV stack with trailing-zeros merging, root_output_bytes) equals the specification output for every mode, "
         "every update split and every output length (ref_refines; Ok = no panic incl. the stack bound); EVERY entry of "
         "test_vectors.json (translated to Coq on each run: 35 lengths x 3 modes x 131 bytes, stated key/context/pattern) "
         "equals the specification, proved inside the kernel by vm_compute; hence reference = spec = Rust model (C01). "
         "Every function of reference_impl.rs is TRANSLATED statement by statement (gen/GenRefImpl.v, gen/GenRefImplLoops.v: "
         "while loops on explicit fuel, chunks_mut loops, the CV stack with its bounds asserts) and proved equal to the model "
         "(C15_ref_src_*: simple loops at every fuel; fuel-threading functions with enough fuel, and OutOfFuel-or-equal at any "
         "fuel), and the translated new/update/finalize composed equal the specification (C15_ref_src_run_spec). "
         "Correspondence: reference_impl::Hasher driven with splits and output lengths vs the extracted model.",
         "vm_compute is used for the test-vector equalities (a kernel conversion); reference constants translated from reference_impl.rs.",
         "Coq proof (refinement by induction + in-kernel evaluation of all published vectors) + correspondence"),
 "C05": ("Coq theorems (Props/C05.v): executable models of the SIMD kernel ALGORITHMS (lane-parallel hash4/8/16 with "
         "transposed loads/stores, four load_counters variants incl. the carry tricks of the C/asm code, the batch/remainder "
         "cascades of every back end, row-vectorised compress with diagonalisation, lane-parallel xof) equal the portable "
         "kernel for all arguments, giving PlatformOK for SSE2/SSE4.1/AVX2/AVX-512 (and FFI flavours); portable = spec "
         "compression; the portable compression function itself (src/portable.rs, c/blake3_portable.c: g, round, compress_pre, "
         "compress_in_place, compress_xof, word/byte conversions) is TRANSLATED statement by statement (gen/GenPortable.v) and proved "
         "equal to the model; the vector round, rotation helpers, transposes, transposing message loads and the per-block body of hashN of "
         "all nine intrinsics kernels are TRANSLATED (gen/GenRounds.v) and proved equal to the kernel models; the row-vectorised compress_pre / "
         "compress_in_place / compress_xof of the five SSE / AVX-512 files are TRANSLATED (gen/GenRows.v) and proved equal to the portable "
         "compression; every load_counters* function of the C-intrinsics and Rust-intrinsics back ends is TRANSLATED statement by "
         "statement (gen/GenCounters.v over the intrinsic semantics of Model/Intrinsics.v) and proved equal to the counter models and "
         "to 'lane i = low/high word of counter + i' for all counters; hash1 / hash_one_* and the WHOLE hash_many / blake3_hash_many_* functions "
         "(every batch loop and the trailing one-at-a-time loop of the portable, SSE2, SSE4.1, AVX2, AVX-512 Rust and C files) are TRANSLATED "
         "(gen/GenCascades.v) and proved equal to the cascade models result by result at every sufficient fuel (Proofs/CascadesP*.v, "
         "C05_src_*hash_many*); the whole hash4 / hash8 of the three Rust intrinsics files and blake3_hash4/8/16_avx512 (key broadcast, block loop, "
         "counters, final transpose, stores) are TRANSLATED (gen/GenKern2.v) and proved equal to the N-way kernel models and to portable hash1 of "
         "each input (C05_src_*hashN*), blake3_hash4_sse2/_sse41 and blake3_hash8_avx2 likewise to hash4_c / hash8_c; the AVX-512 xof kernels are translated but not yet proved. Correspondence at kernel level for EVERY executable flavour (Rust asm/intrinsics/pure builds, C "
         "intrinsics, Unix assembly, Windows-GNU assembly via ms_abi) against the extracted portable model: block_len 0..64, "
         "flags 0..255, counters around 2^32/2^63/2^64, num_inputs 0..2*degree+1, alignments, xof 1..35 blocks.",
         "Partial: the assembly and intrinsics CODE is not modelled instruction by instruction (no ISA semantics installed): "
         "the algorithm is proved, the code is tied by correspondence only. SSE2's blend emulation is not proved equal to lane selection.",
         "Coq proof of the kernel algorithms + statement-level translation of the intrinsics sources proved equal to them + kernel-level correspondence of every flavour"),
 "C06": ("Coq theorems (Props/C06.v) about a model of c/blake3.c (Model/CHasher.v: chunk state, fixed 55-slot in-place "
         "CV stack with popcnt merging, compress_subtree_wide / to_parent_node, update_base, output_root_bytes, finalize_seek, "
         "reset, the four initialisers): C06_update_refines - for EVERY sequence of blake3_hasher_update calls whose inputs "
         "concatenate to m (< 2^64 bytes), every initialiser/key/flags, every seek and out_len with seek+out_len <= 2^64-1, "
         "finalize_seek writes exactly the spec stream S[seek..seek+out_len] of m (instances for init / init_keyed / "
         "init_derive_key_raw = b3_xof_mode of the three modes); C06_one_shot_spec; finalize is a query and updates continue after it; "
         "reset = init of the same mode and key for every reachable state and the next message hashes as from fresh; the two derive-key "
         "initialisers agree; zero-length calls are no-ops; the C integer formulas (round_down_to_power_of_2, left_subtree_len, popcnt, "
         "out_len & -64, shrink condition) are TRANSLATED from the C source and proved equal to the Rust/spec formulas on all of "
         "their domains; the C wide recursion = the Rust one; every index of the in-place stack is in bounds.  Correspondence: the "
         "real C library (assembly and intrinsics builds, all five feature masks through g_cpu_features) against the extracted C "
         "model and against the Rust crate on histories of update/finalize/finalize_seek/reset/clone, all four initialisers, seeks "
         "up to 2^64-1-n.  END TO END (C06_machine_refines_spec): every history over the C case language (several hasher structs, "
         "update, finalize, finalize_seek, reset, memcpy clones, forced memcmp results) that the specification-only machine "
         "(Model/CSpecMachine.v) accepts is reproduced exactly by the C model without panic on every PlatformOK platform; "
         "C06_machine_equals_rust: on new/update/finalize/reset histories the C model and the Rust model give the same bytes; the 18 "
         "loop-free functions of c/blake3.c (initialisers, reset, chunk-state and output helpers, finalize, update) are TRANSLATED "
         "statement by statement (gen/GenCHasherSmall.v) and proved equal to the model; chunk_state_update, hasher_merge_cv_stack, "
         "hasher_push_cv and blake3_hasher_finalize_seek (four while loops, flat cv_stack indexing) are TRANSLATED statement by "
         "statement (gen/GenCHasherLoops.v) and proved equal to the hand-written loops at every fuel, Panic codes included.",
         "The kernels behind the dispatcher are the platform record (PlatformOK, tied by C05 and by the five feature masks run "
         "here); blake3_hasher_init_derive_key (NUL-terminated string) is modelled as strlen + the raw initialiser; the TBB path is C08.",
         "Coq proof of the C hasher model (full refinement) + differential run of the real C library in 2 builds x 5 feature masks"),
 "C04": ("Coq theorems (Props/C04.v): every observation of the one-shot functions, of call histories, of extended-output "
         "operation sequences and of subtree chaining values is equal for any two platform records satisfying PlatformOK "
         "(corollaries of C01/C02/C03/C09), and PlatformOK holds for the modelled SSE2/SSE4.1/AVX2/AVX-512 kernels (C05) and "
         "for portable kernels at every degree; the dispatch layer itself is TRANSLATED from src/platform.rs (enum Platform, detect(), the "
         "*_detected helpers, simd_degree, compress_in_place, compress_xof, hash_many, xof_many, the MAX_SIMD_DEGREE ladders, the mod table of "
         "lib.rs) and c/blake3_dispatch.c (the five ladders) into gen/GenPlatform.v and proved to select, in every x86-64 build flavour and at "
         "every C feature mask, kernels whose platform record is PlatformOK, with detect() returning the highest available level (C04_src_*, "
         "26 theorems). Correspondence: one case file and one expected-output set against 3 Rust "
         "build flavours (assembly, prefer_intrinsics, pure) x every platform forced through the hook x debug/release; "
         "thorough adds the stock no_* feature builds; the kernel implementations actually exercised are read back from "
         "the build scripts' output and all four (asm / Rust intrinsics / C AVX-512 intrinsics / portable) must be reached.",
         "Partial: build.rs (the cfg flag sets of the flavours) is hand-modelled and observed, not translated; a no-default-features build cannot be driven by the std-based harness.",
         "Coq corollary of the spec-equality theorems + translated dispatch layer proved to pick PlatformOK kernels + multi-flavour correspondence"),
 "C07": ("Coq theorems (Props/C07.v): every index / slice bound / ArrayVec push of the modelled glue is an assert of the model, "
         "so the Ok of C01/C02/C03/C09 states that no index is out of range for any input; kernel-model footprints (exactly "
         "one 32-byte CV per input, exactly 64 bytes per xof block, fill writes exactly n bytes); for ANY update history the "
         "Rust hasher and the C glue (55-slot stack, chunk buffer, cv_array, output) stay in bounds and finalize_seek writes "
         "exactly out_len bytes (corollaries of the C02 / C06 refinements); the STACK FRAMES of the eleven hand-written Unix "
         "assembly functions are TRANSLATED (tools/gen_coq.py gen_asm_frames -> gen/GenAsmFrames.v: pushes, frame size, every "
         "rsp-based operand with its width, pops, callee-saved registers written) and proved to keep every stack access "
         "inside [rsp, rbp) for every incoming alignment and to restore rbx, rbp, r12-r15; the ten Windows-GNU assembly functions "
         "are translated too (pushes incl. rsi/rdi, xmm6-15 save slots and restores, body stores, registers written) and proved "
         "to restore every callee-saved general and xmm register and to keep save slots and stores inside the frame. "
         "Harness (not a proof): every "
         "kernel call of C05 and C-hasher histories with each buffer flush against a PROT_NONE page at the high and the low "
         "end, contiguous and separately allocated inputs, canaries around outputs, an assembly trampoline checking rbx, rbp, "
         "r12-r15 (and rsi, rdi, xmm6-15 for ms_abi), rsp and DF, ASan/UBSan builds in the thorough tier; Rust kernels with "
         "guard pages too. One genuine finding is recorded in known_findings.txt (assembly hash_many over-read).",
         "Partial: the loads/stores through the argument pointers executed inside assembly and intrinsics are not verified (no "
         "ISA semantics available): the model states footprints, the harness checks them on the sampled calls (each kernel "
         "entered at all four legal stack alignments). The frame theorems trust the translator's reading of the operands (destination = first "
         "operand, explicit size keywords) and cover the GNU-syntax files (Unix and Windows-GNU), not the MSVC .asm twins.",
         "Coq proof of index bounds and footprints on the models + guard-page / register-sentinel / sanitizer harness"),
 "C08": ("Coq theorems (Props/C08.v): in the split node of compress_subtree_wide the two halves write disjoint slot ranges of "
         "the cv_array; every interleaving of their write events (left-first, right-first, any concurrent schedule) leaves "
         "the same memory, so the parent layer sees exactly left ++ right whatever the schedule. Correspondence: the scripted "
         "Join hook with ALL 3^k assignments of {left-first, right-first, two threads} for split trees with k <= 5 nodes and "
         "random scripts up to 2 MiB, real update_rayon under pools of 1/2/3/8/16 threads, the C library's TBB seam "
         "implemented by the harness with the same scripts (pthreads), TSan build in the thorough tier; all compared with "
         "serial update by continuation and with the model.",
         "Partial: rayon, TBB, the hardware memory model and Rust's aliasing guarantees for safe code are trusted, not modelled.",
         "Coq proof (disjoint writes commute; induction over interleavings) + exhaustive-schedule correspondence"),
 "C18": ("Coq theorems (Props/C18.v): in any interleaving of per-instance operation sequences each instance observes exactly "
         "what it observes alone (operations act on one instance; the detection cache only moves from unknown to the one "
         "detected value); the list of writable global symbols found by nm in the freshly built C objects and the blake3 "
         "rlib is GENERATED into Coq on every run and must equal the detection caches (a new static breaks the obligation). "
         "Correspondence: fresh processes starting 2..16 threads on a barrier with the cache untouched (detection races), "
         "each thread running a full history on its own instances (Rust and C), compared with the sequential model results; "
         "C side under TSan in the thorough tier.",
         "Partial: real interleavings are sampled by the OS; 'touches only its instance' is tied by the symbol scan and Rust ownership, not by a memory model.",
         "Coq proof (commutation / projection of interleavings) + translated symbol table + threaded correspondence"),
 "C02": ("Coq theorems (Props/C02.v) about the Hasher model; correspondence on random histories, exhaustive short 2-splits, "
         "Write/update_reader, all modes, every forced SIMD level.",
         "Proved: any update sequence over any number of instances with clone/reset/finalize/finalize_xof/count interleaved "
         "refines one byte list per instance (history_refines), for every PlatformOK platform; CV-stack invariant (lazy "
         "merging, popcount rule, capacity 55) by induction; END TO END (C02_machine_refines_spec): every history over the whole "
         "case language (hashers, readers, offsets, merges, trait operations) that the specification-only machine accepts is "
         "reproduced exactly by the implementation machine, without panic, on every PlatformOK platform; the function items of "
         "lib.rs are translated and must equal the list the model was written against; ChunkState::count/fill_buf/output/update "
         "and Hasher::merge_cv_stack/push_cv/reset/final_output/finalize/finalize_xof/count of src/lib.rs (with their three while "
         "loops) are TRANSLATED statement by statement (gen/GenLibLoops.v) and proved equal to the model functions at every "
         "argument and every fuel (C02_lib_src_*). update_rayon/mmap wrappers are C08/C11.",
         "Coq proof (stack invariant by induction over operations) + correspondence"),
 "C09": ("Coq theorems (Props/C09.v): helper formulas on all of u64 (translated source text), subtree/merge statements; "
         "correspondence on random decompositions, fixed groups, offsets up to 2^54-64 chunks, documented misuse panics.",
         "Proved: subtree hashers at any chunk-aligned offset below 2^54 chunks = spec subtree CV (any update split); "
         "every decomposition respecting left_subtree_len/max_subtree_len (inductive Decomp, any nesting) recombines to "
         "the hash and root output; helper formulas on all of u64; documented misuse panics.",
         "Coq proof + translated formulas + correspondence"),
 "C10": ("Coq theorems (Props/C10.v): reset yields the constructor state of the same key/flags; clone independence in the "
         "multi-instance machine; correspondence on prefix/reset/suffix histories incl. hazmat offsets.",
         "Proved: reset h = new_internal key flags for every reachable state at any hazmat offset; clone/reset inside "
         "call histories (history_refines). Derived Clone is modelled as copying the record.",
         "Coq proof + correspondence"),
}
NOT_YET = "model/proof under construction in this development; not claimed until its check exists"


def main():
    props = [json.loads(l) for l in open(os.path.join(V, "properties.jsonl"))]
    claimed = [p["id"] for p in props if p["id"] in CLAIMS and os.path.exists(os.path.join(V, "coq", "Props", p["id"] + ".v"))
               and os.path.exists(os.path.join(V, "tools", "props", p["id"] + ".py"))]
    try:
        commits = subprocess.run(["git", "-C", "/repo", "log", "--format=%h %s"], capture_output=True, text=True).stdout.split("\n")
        hooks = [c.split()[0] for c in commits if c.startswith(tuple("0123456789abcdef")) and "verif hook" in c]
    except Exception:
        hooks = []
    man = {
        "version": 1,
        "setup_cmd": "tools/setup.sh",
        "hooks": {"guard": "--cfg blake3_team_blake3_verif",
                  "enable": "RUSTFLAGS=\"--cfg blake3_team_blake3_verif\" cargo build --offline (harness crates under /verif/harness, path dependency on /repo)",
                  "baseline_off_cmd": "cd /repo && cargo test --workspace --no-fail-fast --offline",
                  "source_commits": hooks, "add_only": True},
        "engines": [
            {"name": "coq-models", "path": "coq/", "serves_properties": claimed,
             "kind_free_text": "Coq 8.16.1 development: Spec/ (paper), Model/ (hand-written executable models), gen/ (translated from /repo on every run), Proofs/, Props/ (pinned theorems, Print Assumptions)"},
            {"name": "correspondence", "path": "tools/verif.py", "serves_properties": claimed,
             "kind_free_text": "extracted OCaml model driver vs Rust/C harnesses on generated cases; property-level search and replay on disagreement"}],
        "checks": [],
        "not_applicable": [],
        "notes": "Technique family: machine-checked proof in Coq 8.16.1 (models + theorems + checked tie to /repo). See DESIGN.md.",
    }
    for pid in claimed:
        text, note, tech = CLAIMS[pid]
        man["checks"].append({
            "property_id": pid, "quick_cmd": f"./check {pid} quick", "thorough_cmd": f"./check {pid} thorough",
            "evidence_file": f"evidence/{pid}.json", "replay_cmd_template": f"./check {pid} replay {{path}}",
            "engine": "coq-models",
            "level_claimed": {"category": "proof", "text": text, "design_ref": "DESIGN.md section 5 " + pid},
            "level_note": COMMON_NOTE + note, "technique": tech})
    for p in props:
        if p["id"] not in claimed:
            man["not_applicable"].append({"property_id": p["id"], "reason": NOT_YET})
    with open(os.path.join(V, "MANIFEST.json"), "w") as f:
        json.dump(man, f, indent=1)
    print("claimed:", claimed)


if __name__ == "__main__":
    main()
