(* Model of the C library c/blake3.c (with the helpers of c/blake3_impl.h and the
   dispatcher c/blake3_dispatch.c behind a `platform` record: blake3_simd_degree =
   p_degree, MAX_SIMD_DEGREE of the build = p_max_degree, blake3_compress_in_place /
   blake3_compress_xof / blake3_hash_many / blake3_xof_many = the four kernels; the
   generic `for` loop of blake3_xof_many and the AVX-512 lane version are both
   instances of p_xof_many).

   Conventions
   - Byte strings, words and CVs are `list N`; a `uint8_t *input, size_t input_len`
     pair is one list (input_len = its length, which the theorems bound by 2^64).
   - blake3_chunk_state is the record RsChunk.chunk_state (same six fields); output_t
     is Spec.Tree.output (input_cv, block, block_len, counter, flags).
   - blake3_hasher.cv_stack is a fixed array of c_cv_stack_slots 32-byte slots, BOTTOM
     first, together with cv_stack_len; slots at or above cv_stack_len keep whatever
     was written there before (the C code never clears them; blake3_hasher_init does
     not touch the array, so the initialisers take the previous memory contents).
   - CV arrays written through `uint8_t *out` are lists of CVs with a capacity `cap`.
   Panic codes
   - 300..339: the C code would index outside an array / read bytes it never wrote.
   - 1600..1639: `assert`s of the C source (BLAKE3_TESTING or plain assert).
   - 1001..1006 (Base/MachInt): an unsigned wrap-around.  In C that is defined
     behaviour; the model is deliberately stricter, and the theorems (which conclude
     `Ok`) show that no wrap-around happens in the stated domain. *)
From Coq Require Import NArith List Bool.
From V Require Import Base.Res Base.Word Base.MachInt gen.GenConsts gen.GenFormulas
  Spec.Tree Model.Portable Model.Platform Model.RsChunk Model.RsWide.
Import ListNotations.
Open Scope N_scope.

(* the dispatcher's choice at each cumulative CPU-feature level of an x86-64 build:
   MAX_SIMD_DEGREE is the C header's constant *)
Definition c_platform (degree : N) : platform := sim_platform degree c_MAX_SIMD_DEGREE.

Definition c_zero_block : list N := repeat 0 (N.to_nat c_BLOCK_LEN).

(* ---- chunk_state_* ------------------------------------------------------------- *)
Definition c_cs_init (key : list N) (flags : N) : chunk_state :=
  mkCS key 0 c_zero_block 0 0 flags.

(* chunk_state_reset: everything but `flags` *)
Definition c_cs_reset (cs : chunk_state) (key : list N) (chunk_counter : N) : chunk_state :=
  mkCS key chunk_counter c_zero_block 0 0 (cs_flags cs).

Definition c_cs_len (cs : chunk_state) : res N := c_chunk_state_len (cs_blocks cs) (cs_buf_len cs).

Definition c_cs_start_flag (cs : chunk_state) : N :=
  if cs_blocks cs =? 0 then c_flag_CHUNK_START else 0.

(* chunk_state_fill_buf: returns the new state and `take` *)
Definition c_cs_fill_buf (cs : chunk_state) (input : list N) : res (chunk_state * N) :=
  take <- mi_sub 64 c_BLOCK_LEN (cs_buf_len cs) ;;
  let take := N.min take (nlen input) in                          (* if (take > input_len) take = input_len *)
  assert! (cs_buf_len cs + take <=? nlen (cs_buf cs)) code 300 ;; (* memcpy(buf + buf_len, input, take) *)
  let buf := firstn (N.to_nat (cs_buf_len cs)) (cs_buf cs) ++ firstn (N.to_nat take) input
             ++ skipn (N.to_nat (cs_buf_len cs + take)) (cs_buf cs) in
  buf_len <- mi_add 8 (cs_buf_len cs) take ;;                     (* buf_len += (uint8_t)take; take <= 64 *)
  Ok (mkCS (cs_cv cs) (cs_ctr cs) buf buf_len (cs_blocks cs) (cs_flags cs), take).

(* `while (input_len > BLAKE3_BLOCK_LEN)` of chunk_state_update *)
Fixpoint c_cs_update_loop (fuel : nat) (p : platform) (cs : chunk_state) (input : list N)
  : res (chunk_state * list N) :=
  if nlen input <=? c_BLOCK_LEN then Ok (cs, input)
  else match fuel with
       | O => OutOfFuel
       | S fuel' =>
           let cv := p_compress_in_place p (cs_cv cs) (firstn (N.to_nat c_BLOCK_LEN) input) c_BLOCK_LEN
                       (cs_ctr cs) (N.lor (cs_flags cs) (c_cs_start_flag cs)) in
           blocks <- mi_add 8 (cs_blocks cs) 1 ;;
           c_cs_update_loop fuel' p (mkCS cv (cs_ctr cs) (cs_buf cs) (cs_buf_len cs) blocks (cs_flags cs))
             (skipn (N.to_nat c_BLOCK_LEN) input)
       end.

Definition c_cs_update (p : platform) (cs : chunk_state) (input : list N) : res chunk_state :=
  '(cs, input) <-
    (if 0 <? cs_buf_len cs then
       '(cs, take) <- c_cs_fill_buf cs input ;;
       let input := skipn (N.to_nat take) input in
       if 0 <? nlen input then
         let cv := p_compress_in_place p (cs_cv cs) (cs_buf cs) c_BLOCK_LEN (cs_ctr cs)
                     (N.lor (cs_flags cs) (c_cs_start_flag cs)) in
         blocks <- mi_add 8 (cs_blocks cs) 1 ;;
         Ok (mkCS cv (cs_ctr cs) c_zero_block 0 blocks (cs_flags cs), input)
       else Ok (cs, input)
     else Ok (cs, input)) ;;
  '(cs, input) <- c_cs_update_loop (S (Nat.div (length input) 64)) p cs input ;;
  '(cs, _) <- c_cs_fill_buf cs input ;;
  Ok cs.

(* chunk_state_output / parent_output / make_output *)
Definition c_cs_output (cs : chunk_state) : output :=
  mkOutput (cs_cv cs) (cs_buf cs) (cs_buf_len cs) (cs_ctr cs)
           (N.lor (N.lor (cs_flags cs) (c_cs_start_flag cs)) c_flag_CHUNK_END).

Definition c_parent_output (block key : list N) (flags : N) : output :=
  mkOutput key block c_BLOCK_LEN 0 (N.lor flags c_flag_PARENT).

(* output_chaining_value: compress_in_place on a copy of input_cv, store_cv_words *)
Definition c_output_chaining_value (p : platform) (o : output) : list N :=
  bytes_of_words (p_compress_in_place p (o_cv o) (o_block o) (o_blen o) (o_ctr o) (o_flags o)).

(* ---- output_root_bytes ------------------------------------------------------------
   returns the bytes written to `out`, in order; `out` has exactly out_len bytes *)
Definition c_output_root_bytes (p : platform) (o : output) (seek out_len : N) : res (list N) :=
  if out_len =? 0 then Ok [] else
  counter <- c_orb_counter seek ;;
  offset <- c_orb_offset seek ;;
  let flags := N.lor (o_flags o) c_flag_ROOT in
  '(head, out_len, counter) <-
    (if negb (offset =? 0) then
       let wide_buf := p_compress_xof p (o_cv o) (o_block o) (o_blen o) counter flags in
       available <- c_orb_available offset ;;
       let bytes := if available <? out_len then available else out_len in
       assert! (offset + bytes <=? nlen wide_buf) code 310 ;;          (* memcpy(out, wide_buf + offset, bytes) *)
       out_len' <- mi_sub 64 out_len bytes ;;
       counter' <- mi_add 64 counter 1 ;;
       Ok (firstn (N.to_nat bytes) (skipn (N.to_nat offset) wide_buf), out_len', counter')
     else Ok ([], out_len, counter)) ;;
  blocks <- c_orb_blocks out_len ;;
  mid <- (if negb (blocks =? 0) then
            p_xof_many p (o_cv o) (o_block o) (o_blen o) counter flags blocks
          else Ok []) ;;
  counter <- mi_add 64 counter blocks ;;
  whole <- c_orb_whole out_len ;;                                       (* out += out_len & -64 *)
  assert! (nlen mid =? whole) code 311 ;;                               (* xof_many wrote exactly the whole blocks *)
  out_len <- mi_sub 64 out_len whole ;;
  if negb (out_len =? 0) then
    let wide_buf := p_compress_xof p (o_cv o) (o_block o) (o_blen o) counter flags in
    assert! (out_len <=? nlen wide_buf) code 312 ;;                     (* memcpy(out, wide_buf, out_len) *)
    Ok (head ++ mid ++ firstn (N.to_nat out_len) wide_buf)
  else Ok (head ++ mid).

(* ---- compress_chunks_parallel / compress_parents_parallel --------------------------- *)
Definition c_compress_chunks_parallel (p : platform) (input key : list N) (chunk_counter flags cap : N)
  : res (list (list N)) :=
  assert! (0 <? nlen input) code 1600 ;;                                (* BLAKE3_TESTING *)
  assert! (nlen input <=? p_max_degree p * c_CHUNK_LEN) code 1601 ;;    (* BLAKE3_TESTING *)
  let '(chunks, rem) := chunks_exact_of c_CHUNK_LEN input in            (* the chunks_array loop *)
  assert! (nlen_l chunks <=? p_max_degree p) code 301 ;;                (* chunks_array[MAX_SIMD_DEGREE] *)
  cvs <- p_hash_many p chunks key chunk_counter true flags c_flag_CHUNK_START c_flag_CHUNK_END cap ;;
  let chunks_array_len := nlen_l chunks in
  if 0 <? nlen rem then                                                 (* input_len > input_position *)
    counter <- mi_add 64 chunk_counter chunks_array_len ;;
    let cs0 := c_cs_init key flags in
    let cs0 := mkCS (cs_cv cs0) counter (cs_buf cs0) (cs_buf_len cs0) (cs_blocks cs0) (cs_flags cs0) in
    cs <- c_cs_update p cs0 rem ;;
    assert! (chunks_array_len + 1 <=? cap) code 302 ;;                  (* &out[chunks_array_len * OUT_LEN] *)
    Ok (cvs ++ [c_output_chaining_value p (c_cs_output cs)])
  else Ok cvs.

Definition c_compress_parents_parallel (p : platform) (child_cvs : list (list N)) (key : list N) (flags cap : N)
  : res (list (list N)) :=
  let num := nlen_l child_cvs in
  assert! (2 <=? num) code 1602 ;;                                      (* BLAKE3_TESTING *)
  assert! (num <=? 2 * max_degree_or_2 p) code 1603 ;;                  (* BLAKE3_TESTING *)
  let '(parents, odd) := pair_blocks child_cvs in                       (* the parents_array loop *)
  assert! (nlen_l parents <=? max_degree_or_2 p) code 303 ;;            (* parents_array[MAX_SIMD_DEGREE_OR_2] *)
  outs <- p_hash_many p parents key 0 false (N.lor flags c_flag_PARENT) 0 0 cap ;;
  match odd with
  | Some cv =>
      assert! (nlen_l parents + 1 <=? cap) code 304 ;;                  (* memcpy(&out[parents_array_len * OUT_LEN], ..) *)
      Ok (outs ++ [cv])
  | None => Ok outs
  end.

(* ---- blake3_compress_subtree_wide (the non-TBB arm; C08 relates the TBB join to it) --- *)
Fixpoint c_compress_subtree_wide (fuel : nat) (p : platform) (input key : list N) (chunk_counter flags cap : N)
  : res (list (list N)) :=
  if nlen input <=? p_degree p * c_CHUNK_LEN then
    c_compress_chunks_parallel p input key chunk_counter flags cap
  else match fuel with
  | O => OutOfFuel
  | S fuel' =>
      left_len <- c_left_subtree_len (nlen input) ;;
      _ <- mi_sub 64 (nlen input) left_len ;;                           (* right_input_len; &input[left_input_len] *)
      let left := firstn (N.to_nat left_len) input in
      let right := skipn (N.to_nat left_len) input in
      right_counter <- mi_add 64 chunk_counter (left_len / c_CHUNK_LEN) ;;
      let array_cap := 2 * max_degree_or_2 p in                         (* cv_array[2 * MAX_SIMD_DEGREE_OR_2 * OUT_LEN] *)
      let degree := if (c_CHUNK_LEN <? left_len) && (p_degree p =? 1) then 2 else p_degree p in
      assert! (degree <=? array_cap) code 305 ;;                        (* right_cvs = &cv_array[degree * OUT_LEN] *)
      (* the left call writes from cv_array[0]; CVs at or beyond right_cvs would be overwritten
         by the right call, so its usable capacity is `degree` *)
      lcvs <- c_compress_subtree_wide fuel' p left key chunk_counter flags degree ;;
      rcvs <- c_compress_subtree_wide fuel' p right key right_counter flags (array_cap - degree) ;;
      let left_n := nlen_l lcvs in
      let right_n := nlen_l rcvs in
      (* cv_array[0 .. left_n + right_n) is read as one contiguous run: a gap between the two
         halves would be uninitialised stack memory *)
      assert! (left_n =? degree) code 306 ;;
      if left_n =? 1 then
        assert! (1 <=? right_n) code 307 ;;                             (* memcpy(out, cv_array, 2 * OUT_LEN) reads 2 CVs *)
        assert! (2 <=? cap) code 308 ;;
        Ok (firstn 2 (lcvs ++ rcvs))
      else
        c_compress_parents_parallel p (lcvs ++ rcvs) key flags cap
  end.

(* `while (num_cvs > 2)` of compress_subtree_to_parent_node; out_array has MAX_SIMD_DEGREE_OR_2 / 2 CVs *)
Fixpoint c_condense_loop (fuel : nat) (p : platform) (cvs : list (list N)) (key : list N) (flags : N)
  : res (list (list N)) :=
  if nlen_l cvs <=? 2 then Ok cvs
  else match fuel with
       | O => OutOfFuel
       | S fuel' =>
           outs <- c_compress_parents_parallel p cvs key flags (max_degree_or_2 p / 2) ;;
           c_condense_loop fuel' p outs key flags                       (* memcpy(cv_array, out_array, num_cvs * OUT_LEN) *)
       end.

Definition c_compress_subtree_to_parent_node (p : platform) (input key : list N) (chunk_counter flags : N)
  : res (list N) :=
  assert! (c_CHUNK_LEN <? nlen input) code 1604 ;;                      (* BLAKE3_TESTING *)
  cvs <- c_compress_subtree_wide wide_fuel p input key chunk_counter flags (max_degree_or_2 p) ;;
  assert! (nlen_l cvs <=? max_degree_or_2 p) code 1605 ;;               (* assert(num_cvs <= MAX_SIMD_DEGREE_OR_2) *)
  cvs <- (if 2 <? max_degree_or_2 p then c_condense_loop 8 p cvs key flags    (* #if MAX_SIMD_DEGREE_OR_2 > 2 *)
          else Ok cvs) ;;
  match cvs with
  | a :: b :: _ => Ok (a ++ b)                                          (* memcpy(out, cv_array, 2 * OUT_LEN) *)
  | _ => Panic 309                                                      (* fewer than 2 CVs were written *)
  end.

(* ---- blake3_hasher -------------------------------------------------------------------- *)
Record c_hasher := mkCH {
  ch_key : list N;              (* uint32_t key[8] *)
  ch_chunk : chunk_state;
  ch_stack_len : N;             (* uint8_t cv_stack_len *)
  ch_stack : list (list N) }.   (* cv_stack, all slots, bottom first *)

Definition c_cv_stack_slots : N := c_cv_stack_bytes / c_OUT_LEN.

Definition ch_flags (h : c_hasher) : N := cs_flags (ch_chunk h).
Definition ch_with_chunk (h : c_hasher) (cs : chunk_state) : c_hasher :=
  mkCH (ch_key h) cs (ch_stack_len h) (ch_stack h).

Fixpoint upd_nth {A} (i : nat) (x : A) (l : list A) : list A :=
  match l, i with
  | [], _ => []
  | _ :: tl, O => x :: tl
  | y :: tl, S i' => y :: upd_nth i' x tl
  end.

Definition slot (st : list (list N)) (i : N) : list N := nth (N.to_nat i) st [].

(* hasher_init_base; `mem` = what the cv_stack bytes of *self held before *)
Definition c_hasher_init_base (mem : list (list N)) (key : list N) (flags : N) : c_hasher :=
  mkCH key (c_cs_init key flags) 0 mem.

(* hasher_merge_cv_stack: the parent CV is written over the left child *)
Fixpoint c_merge_loop (fuel : nat) (p : platform) (h : c_hasher) (post_merge_stack_len : N) : res c_hasher :=
  if ch_stack_len h <=? post_merge_stack_len then Ok h
  else match fuel with
       | O => OutOfFuel
       | S fuel' =>
           assert! (2 <=? ch_stack_len h) code 320 ;;                   (* &cv_stack[(cv_stack_len - 2) * OUT_LEN] *)
           let i := ch_stack_len h - 2 in
           assert! (i + 2 <=? c_cv_stack_slots) code 321 ;;
           let parent_node := slot (ch_stack h) i ++ slot (ch_stack h) (i + 1) in
           let o := c_parent_output parent_node (ch_key h) (ch_flags h) in
           let cv := c_output_chaining_value p o in
           len' <- mi_sub 8 (ch_stack_len h) 1 ;;
           c_merge_loop fuel' p (mkCH (ch_key h) (ch_chunk h) len' (upd_nth (N.to_nat i) cv (ch_stack h)))
             post_merge_stack_len
       end.

(* cv_stack_len is a uint8_t and every iteration decrements it *)
Definition c_merge_fuel : nat := 256.

Definition c_merge_cv_stack (p : platform) (h : c_hasher) (total_len : N) : res c_hasher :=
  post <- c_popcnt total_len ;;
  c_merge_loop c_merge_fuel p h post.

Definition c_push_cv (p : platform) (h : c_hasher) (new_cv : list N) (chunk_counter : N) : res c_hasher :=
  h <- c_merge_cv_stack p h chunk_counter ;;
  assert! (ch_stack_len h <? c_cv_stack_slots) code 322 ;;             (* memcpy(&cv_stack[cv_stack_len * OUT_LEN], ..) *)
  len' <- mi_add 8 (ch_stack_len h) 1 ;;
  Ok (mkCH (ch_key h) (ch_chunk h) len' (upd_nth (N.to_nat (ch_stack_len h)) new_cv (ch_stack h))).

(* `while ((((uint64_t)(subtree_len - 1)) & count_so_far) != 0) subtree_len /= 2;` *)
Fixpoint c_shrink_loop (fuel : nat) (subtree_len count_so_far : N) : res N :=
  c <- c_shrink_cond subtree_len count_so_far ;;
  if c then match fuel with
            | O => OutOfFuel
            | S fuel' => c_shrink_loop fuel' (subtree_len / 2) count_so_far
            end
  else Ok subtree_len.

(* the `while (input_len > BLAKE3_CHUNK_LEN)` loop of blake3_hasher_update_base *)
Fixpoint c_update_loop (fuel : nat) (p : platform) (h : c_hasher) (input : list N) : res (c_hasher * list N) :=
  if nlen input <=? c_CHUNK_LEN then Ok (h, input)
  else match fuel with
  | O => OutOfFuel
  | S fuel' =>
      let cs := ch_chunk h in
      subtree_len <- c_round_down_to_power_of_2 (nlen input) ;;
      count_so_far <- c_count_so_far (cs_ctr cs) ;;
      subtree_len <- c_shrink_loop 64 subtree_len count_so_far ;;
      subtree_chunks <- c_subtree_chunks subtree_len ;;
      assert! (subtree_len <=? nlen input) code 323 ;;                  (* reads input_bytes[0 .. subtree_len) *)
      h <- (if subtree_len <=? c_CHUNK_LEN then
              let cs0 := c_cs_init (ch_key h) (cs_flags cs) in
              let cs0 := mkCS (cs_cv cs0) (cs_ctr cs) (cs_buf cs0) (cs_buf_len cs0) (cs_blocks cs0) (cs_flags cs0) in
              cs1 <- c_cs_update p cs0 (firstn (N.to_nat subtree_len) input) ;;
              c_push_cv p h (c_output_chaining_value p (c_cs_output cs1)) (cs_ctr cs1)
            else
              cv_pair <- c_compress_subtree_to_parent_node p (firstn (N.to_nat subtree_len) input) (ch_key h)
                           (cs_ctr cs) (cs_flags cs) ;;
              h <- c_push_cv p h (firstn 32 cv_pair) (cs_ctr cs) ;;
              rc <- c_right_cv_counter (cs_ctr cs) subtree_chunks ;;
              c_push_cv p h (firstn 32 (skipn 32 cv_pair)) rc) ;;
      ctr' <- mi_add 64 (cs_ctr cs) subtree_chunks ;;
      let cs' := mkCS (cs_cv cs) ctr' (cs_buf cs) (cs_buf_len cs) (cs_blocks cs) (cs_flags cs) in
      c_update_loop fuel' p (ch_with_chunk h cs') (skipn (N.to_nat subtree_len) input)
  end.

(* blake3_hasher_update (= blake3_hasher_update_base with use_tbb = false) *)
Definition c_hasher_update (p : platform) (h : c_hasher) (input : list N) : res c_hasher :=
  if nlen input =? 0 then Ok h else
  clen <- c_cs_len (ch_chunk h) ;;
  r <- (if 0 <? clen then
          take <- mi_sub 64 c_CHUNK_LEN clen ;;
          let take := N.min take (nlen input) in
          cs <- c_cs_update p (ch_chunk h) (firstn (N.to_nat take) input) ;;
          let input := skipn (N.to_nat take) input in
          if 0 <? nlen input then
            let chunk_cv := c_output_chaining_value p (c_cs_output cs) in
            h <- c_push_cv p (ch_with_chunk h cs) chunk_cv (cs_ctr cs) ;;
            ctr' <- mi_add 64 (cs_ctr cs) 1 ;;
            Ok (ch_with_chunk h (c_cs_reset cs (ch_key h) ctr'), input, false)
          else Ok (ch_with_chunk h cs, input, true)
        else Ok (h, input, false)) ;;
  let '(h, input, done) := r in
  if done then Ok h else
  '(h, input) <- c_update_loop (S (Nat.div (length input) 1024)) p h input ;;
  if 0 <? nlen input then
    cs <- c_cs_update p (ch_chunk h) input ;;
    c_merge_cv_stack p (ch_with_chunk h cs) (cs_ctr cs)
  else Ok h.

(* the `while (cvs_remaining > 0)` loop of blake3_hasher_finalize_seek *)
Fixpoint c_finalize_loop (cvs_remaining : nat) (p : platform) (h : c_hasher) (o : output) : res output :=
  match cvs_remaining with
  | O => Ok o
  | S n =>
      assert! (N.of_nat n <? c_cv_stack_slots) code 324 ;;             (* &cv_stack[cvs_remaining * 32] *)
      let parent_block := slot (ch_stack h) (N.of_nat n) ++ c_output_chaining_value p o in
      c_finalize_loop n p h (c_parent_output parent_block (ch_key h) (ch_flags h))
  end.

(* the output_t that blake3_hasher_finalize_seek hands to output_root_bytes *)
Definition c_final_output (p : platform) (h : c_hasher) : res output :=
  if ch_stack_len h =? 0 then Ok (c_cs_output (ch_chunk h)) else
  clen <- c_cs_len (ch_chunk h) ;;
  '(cvs_remaining, o) <-
    (if 0 <? clen then Ok (ch_stack_len h, c_cs_output (ch_chunk h))
     else
       assert! (2 <=? ch_stack_len h) code 325 ;;                      (* cvs_remaining = cv_stack_len - 2 *)
       let r := ch_stack_len h - 2 in
       assert! (r + 2 <=? c_cv_stack_slots) code 326 ;;
       Ok (r, c_parent_output (slot (ch_stack h) r ++ slot (ch_stack h) (r + 1)) (ch_key h) (ch_flags h))) ;;
  c_finalize_loop (N.to_nat cvs_remaining) p h o.

(* blake3_hasher_finalize_seek: `const blake3_hasher *self`, so only the bytes written to `out` *)
Definition c_hasher_finalize_seek (p : platform) (h : c_hasher) (seek out_len : N) : res (list N) :=
  if out_len =? 0 then Ok [] else
  o <- c_final_output p h ;;
  c_output_root_bytes p o seek out_len.

Definition c_hasher_finalize (p : platform) (h : c_hasher) (out_len : N) : res (list N) :=
  c_hasher_finalize_seek p h 0 out_len.

Definition c_hasher_reset (h : c_hasher) : c_hasher :=
  mkCH (ch_key h) (c_cs_reset (ch_chunk h) (ch_key h) 0) 0 (ch_stack h).

(* ---- the four initialisers --------------------------------------------------------------- *)
Definition c_hasher_init (mem : list (list N)) : c_hasher := c_hasher_init_base mem c_IV 0.

(* load_key_words reads key[0 .. 32) *)
Definition c_hasher_init_keyed (mem : list (list N)) (key : list N) : res c_hasher :=
  assert! (c_KEY_LEN <=? nlen key) code 327 ;;
  Ok (c_hasher_init_base mem (words_of_bytes (firstn (N.to_nat c_KEY_LEN) key)) c_flag_KEYED_HASH).

(* the cv_stack of the local `context_hasher` is uninitialised stack memory; its slots are
   written before they are read, so any contents give the same result: zeros here *)
Definition c_local_stack : list (list N) := repeat (repeat 0 32%nat) (N.to_nat c_cv_stack_slots).

Definition c_hasher_init_derive_key_raw (p : platform) (mem : list (list N)) (context : list N) : res c_hasher :=
  let context_hasher := c_hasher_init_base c_local_stack c_IV c_flag_DERIVE_KEY_CONTEXT in
  context_hasher <- c_hasher_update p context_hasher context ;;
  context_key <- c_hasher_finalize p context_hasher c_KEY_LEN ;;
  Ok (c_hasher_init_base mem (words_of_bytes context_key) c_flag_DERIVE_KEY_MATERIAL).

(* strlen: the bytes before the first NUL; running off the end of the memory is Panic 328 *)
Fixpoint c_strlen_prefix (s : list N) : res (list N) :=
  match s with
  | [] => Panic 328
  | b :: tl => if b =? 0 then Ok [] else r <- c_strlen_prefix tl ;; Ok (b :: r)
  end.

Definition c_hasher_init_derive_key (p : platform) (mem : list (list N)) (context : list N) : res c_hasher :=
  ctx <- c_strlen_prefix context ;;
  c_hasher_init_derive_key_raw p mem ctx.

(* ---- the history machine of harness/c/driver.c (`CH` cases) --------------------------------- *)
Inductive c_mode :=
| CMHash
| CMKeyed (key : list N)
| CMDerive (context : list N)        (* init_derive_key on a NUL-terminated copy *)
| CMDeriveRaw (context : list N).    (* init_derive_key_raw *)

Inductive c_op :=
| COpNew
| COpUpdate (i : nat) (b : list N)
| COpUpdate0 (i : nat)                       (* update(NULL, 0) *)
| COpFinalize (i : nat) (n : N)
| COpFinalizeSeek (i : nat) (seek n : N)
| COpFinalize0 (i : nat)                     (* finalize(NULL, 0) and finalize_seek(0, NULL, 0) *)
| COpReset (i : nat)
| COpClone (i : nat)
| COpCmp (i j : nat).

Inductive c_obs := CObXof (b : list N) | CObOk | CObSame (same : bool).

(* what new_hasher() in the driver leaves in the struct before calling the initialiser *)
Definition c_mem_cd : list (list N) := repeat (repeat 205 32%nat) (N.to_nat c_cv_stack_slots).

Definition c_new_hasher (p : platform) (m : c_mode) : res c_hasher :=
  match m with
  | CMHash => Ok (c_hasher_init c_mem_cd)
  | CMKeyed k => c_hasher_init_keyed c_mem_cd k
  | CMDerive c => c_hasher_init_derive_key p c_mem_cd (c ++ [0])
  | CMDeriveRaw c => c_hasher_init_derive_key_raw p c_mem_cd c
  end.

Fixpoint list_eqb {A} (eqb : A -> A -> bool) (a b : list A) : bool :=
  match a, b with
  | [], [] => true
  | x :: a', y :: b' => eqb x y && list_eqb eqb a' b'
  | _, _ => false
  end.

Definition cs_eqb (a b : chunk_state) : bool :=
  list_eqb N.eqb (cs_cv a) (cs_cv b) && (cs_ctr a =? cs_ctr b) && list_eqb N.eqb (cs_buf a) (cs_buf b) &&
  (cs_buf_len a =? cs_buf_len b) && (cs_blocks a =? cs_blocks b) && (cs_flags a =? cs_flags b).

(* memcmp of the two structs: every field, every cv_stack slot (padding bytes are copied by `cl`) *)
Definition c_hasher_eqb (a b : c_hasher) : bool :=
  list_eqb N.eqb (ch_key a) (ch_key b) && cs_eqb (ch_chunk a) (ch_chunk b) &&
  (ch_stack_len a =? ch_stack_len b) && list_eqb (list_eqb N.eqb) (ch_stack a) (ch_stack b).

Definition c_get (l : list c_hasher) (i : nat) : res c_hasher :=
  match nth_error l i with Some x => Ok x | None => Panic 900 end.   (* harness error *)

Definition c_step (p : platform) (m : c_mode) (st : list c_hasher) (o : c_op) : res (list c_hasher * list c_obs) :=
  match o with
  | COpNew => h <- c_new_hasher p m ;; Ok (st ++ [h], [])
  | COpUpdate i b => h <- c_get st i ;; h' <- c_hasher_update p h b ;; Ok (upd_nth i h' st, [])
  | COpUpdate0 i => h <- c_get st i ;; h' <- c_hasher_update p h [] ;; Ok (upd_nth i h' st, [])
  | COpFinalize i n => h <- c_get st i ;; bs <- c_hasher_finalize p h n ;; Ok (st, [CObXof bs])
  | COpFinalizeSeek i seek n => h <- c_get st i ;; bs <- c_hasher_finalize_seek p h seek n ;; Ok (st, [CObXof bs])
  | COpFinalize0 i =>
      h <- c_get st i ;; _ <- c_hasher_finalize p h 0 ;; _ <- c_hasher_finalize_seek p h 0 0 ;; Ok (st, [CObOk])
  | COpReset i => h <- c_get st i ;; Ok (upd_nth i (c_hasher_reset h) st, [])
  | COpClone i => h <- c_get st i ;; Ok (st ++ [h], [])
  | COpCmp i j => a <- c_get st i ;; b <- c_get st j ;; Ok (st, [CObSame (c_hasher_eqb a b)])
  end.

Fixpoint c_run_ops (p : platform) (m : c_mode) (st : list c_hasher) (ops : list c_op) (acc : list c_obs)
  : list c_obs * res unit :=
  match ops with
  | [] => (rev acc, Ok tt)
  | o :: tl =>
      match c_step p m st o with
      | Ok (st', out) => c_run_ops p m st' tl (rev out ++ acc)
      | Panic c => (rev acc, Panic c)
      | OutOfFuel => (rev acc, OutOfFuel)
      end
  end.

(* a case: instance 0 is created by the mode's initialiser, then the ops *)
Definition c_run_case (p : platform) (m : c_mode) (ops : list c_op) : list c_obs * res unit :=
  match c_new_hasher p m with
  | Ok h => c_run_ops p m [h] ops []
  | Panic c => ([], Panic c)
  | OutOfFuel => ([], OutOfFuel)
  end.
